// Package simsignal replaces os/signal in the simulated gxz.
package simsignal

import "verif/sim/simos"

// Notify registers c with the simulator.
func Notify(c chan<- simos.Signal, sig ...simos.Signal) { simos.NotifyChan(c) }

// Stop unregisters c.
func Stop(c chan<- simos.Signal) { simos.StopChan(c) }
