// Package simsignal replaces os/signal in the simulated gxz.
package simsignal

import "verif/sim/simos"

// Notify registers c with the simulator.
func Notify(c chan<- simos.Signal, sig ...simos.Signal) { simos.NotifyChan(c) }

// Stop unregisters c.
func Stop(c chan<- simos.Signal) { simos.StopChan(c) }

// CloseQuit stands in for close(quit) in the scratch copy of cmd/gxz (the
// rewrite tool substitutes it): it closes the channel and waits for the
// signal-handler goroutine to acknowledge, so that the simulator always knows
// whether a handler is listening.
func CloseQuit(quit chan<- struct{}) { simos.CloseQuit(quit) }

// WaitDone stands in for a bare `<-done` (waiting for the signal-handler
// goroutine) in the scratch copy of cmd/gxz.
func WaitDone(done <-chan struct{}) { simos.WaitDone(done) }
