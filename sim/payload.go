package sim

import (
	"encoding/hex"
	"fmt"
	"sync"
)

// Payload is a recipe for a byte string, kept small so that replay files stay
// readable. Kinds: zeros, run (byte A), prng, text, alpha (A symbols),
// period (period A), zprefix (A zero bytes then text), dup (Parts[0] twice),
// concat, lit (Hex).
type Payload struct {
	Kind  string    `json:"k"`
	N     int       `json:"n,omitempty"`
	Seed  uint64    `json:"s,omitempty"`
	A     int       `json:"a,omitempty"`
	Hex   string    `json:"hex,omitempty"`
	Parts []Payload `json:"parts,omitempty"`
}

var words = []string{"the", "quick", "brown", "fox", "jumps", "over", "lazy", "dog",
	"lorem", "ipsum", "dolor", "sit", "amet", "compress", "stream", "block", "and",
	"of", "a", "in", "to", "is", "xz", "LZMA", "0000", "\n", ", ", ". "}

// Len returns the length of the byte string without building it.
func (p Payload) Len() int {
	switch p.Kind {
	case "dup":
		return 2 * p.Parts[0].Len()
	case "concat":
		n := 0
		for _, q := range p.Parts {
			n += q.Len()
		}
		return n
	case "lit":
		return len(p.Hex) / 2
	case "surprise":
		return p.A + p.N + surpriseTail
	case "trained":
		return p.A + trainedStages() + p.N + 273 + 300
	}
	return p.N
}

// Bytes builds the byte string.
func (p Payload) Bytes() []byte {
	switch p.Kind {
	case "", "zeros":
		return make([]byte, p.N)
	case "run":
		b := make([]byte, p.N)
		for i := range b {
			b[i] = byte(p.A)
		}
		return b
	case "prng":
		return NewRng(p.Seed).Bytes(p.N)
	case "text", "zprefix":
		r := NewRng(p.Seed)
		b := make([]byte, 0, p.N+16)
		if p.Kind == "zprefix" {
			z := p.A
			if z > p.N {
				z = p.N
			}
			b = append(b, make([]byte, z)...)
		}
		for len(b) < p.N {
			// local repetition: sometimes repeat an earlier slice
			if len(b) > 8 && r.Chance(1, 6) {
				l := r.Range(3, 40)
				d := r.Range(1, len(b))
				for i := 0; i < l; i++ {
					b = append(b, b[len(b)-d])
				}
				continue
			}
			b = append(b, Pick(r, words)...)
			b = append(b, ' ')
		}
		return b[:p.N]
	case "alpha":
		r := NewRng(p.Seed)
		k := p.A
		if k < 1 {
			k = 2
		}
		b := make([]byte, p.N)
		for i := range b {
			b[i] = byte('a' + r.Intn(k))
		}
		return b
	case "period":
		r := NewRng(p.Seed)
		k := p.A
		if k < 1 {
			k = 1
		}
		unit := r.Bytes(k)
		b := make([]byte, p.N)
		for i := range b {
			b[i] = unit[i%k]
		}
		return b
	case "pmis":
		// period A with a mismatching byte every 30..70 positions
		r := NewRng(p.Seed)
		k := p.A
		if k < 1 {
			k = 1
		}
		unit := NewRng(p.Seed ^ 0x5bd1e995).Bytes(k)
		for i := range unit {
			unit[i] = 'a' + unit[i]%16
		}
		b := make([]byte, p.N)
		next := r.Range(30, 70)
		for i := range b {
			b[i] = unit[i%k]
			if i >= k && i == next {
				b[i] ^= byte(1 + r.Intn(15))
				next += r.Range(30, 70)
			}
		}
		return b
	case "farcopy":
		// A bytes of noise, then short noise gaps alternating with copies of
		// 18..60 bytes taken from anywhere in that noise: long matches at far,
		// unpredictable distances in a model trained on literals
		r := NewRng(p.Seed)
		k := p.A
		if k > p.N {
			k = p.N
		}
		b := r.Bytes(k)
		for len(b) < p.N && k > 64 {
			b = append(b, r.Bytes(r.Range(1, 6))...)
			l := r.Range(18, 60)
			o := r.Intn(k - l)
			b = append(b, b[o:o+l]...)
		}
		if len(b) < p.N {
			b = append(b, r.Bytes(p.N-len(b))...)
		}
		return b[:p.N]
	case "surprise":
		// A bytes of noise (a caller flushes after them), N more bytes of noise,
		// 150 six-byte matches at distances 32..64 KiB with distance low bits
		// 0000, 160 literals, then one 273-byte match from a little over 1 MiB
		// back with low bits 1111, and 300 bytes of noise: the adaptive model
		// expects short near matches, then no match at all - the long far match
		// becomes about the most expensive single operation a stream can hold.
		// N moves it byte by byte relative to the compressed-size limit of the
		// chunk it falls into.
		r := NewRng(p.Seed)
		d := r.Bytes(p.A + p.N)
		for i := 0; i < 150; i++ {
			code := 32768 + 16*(100+13*i)
			if s := len(d) - (code + 1); s >= 0 {
				d = append(d, d[s:s+6]...)
			} else {
				d = append(d, r.Bytes(6)...)
			}
		}
		d = append(d, r.Bytes(160)...)
		code := 1<<20 + 16*777 + 15
		if s := len(d) - (code + 1); s >= 0 {
			for i := 0; i < 273; i++ {
				d = append(d, d[s+i])
			}
			d = append(d, d[s+273]^0x55)
		} else {
			d = append(d, r.Bytes(274)...)
		}
		return append(d, r.Bytes(300)...)
	case "trained":
		return trainedPayload(NewRng(p.Seed), p.A, p.N)
	case "dup":
		x := p.Parts[0].Bytes()
		return append(append(make([]byte, 0, 2*len(x)), x...), x...)
	case "concat":
		var b []byte
		for _, q := range p.Parts {
			b = append(b, q.Bytes()...)
		}
		return b
	case "lit":
		b, err := hex.DecodeString(p.Hex)
		if err != nil {
			panic(fmt.Sprintf("sim: bad literal payload: %v", err))
		}
		return b
	}
	panic("sim: unknown payload kind " + p.Kind)
}

// trainedPayload: A bytes of noise (a caller flushes after them); then stages
// of 160 matches each that drive the adaptive probabilities of the length
// tree and of the distance-slot tree as far as they go in one direction -
// lengths 272, 270, 266, 258 at slots 30, 28/29, 24-27, 16-23; length 250 at
// distances below 256; lengths 210, 146, 18, 10, 5 at distances above 64 KiB -
// then N bytes of noise, and one match of length 273 at distance 56001 that
// takes the unexpected branch in every node: about the most expensive single
// operation an encoder can be made to emit (the construction is due to an
// independent reader of property C08, see DESIGN.md §6 #28). N moves it byte
// by byte relative to the compressed-size limit of the chunk it falls into.
func trainedPayload(r *Rng, prefix, filler int) []byte {
	const n = 160
	d := r.Bytes(prefix)
	copyFrom := func(dist, k int, sep bool) {
		for i := 0; i < k; i++ {
			d = append(d, d[len(d)-dist])
		}
		for j := 0; sep && j < 2; j++ {
			b := byte(r.Intn(256))
			if b == d[len(d)-dist] {
				b ^= 0x5a
			}
			d = append(d, b)
		}
	}
	for _, s := range [][2]int{{272, 49000}, {270, 32000}, {266, 16000}, {258, 4000}} {
		dist := s[1]
		for k := 0; k < n; k++ {
			copyFrom(dist, s[0], true)
			dist -= 3
		}
	}
	ds := []int{70, 90, 110, 130, 150, 170}
	for k := 0; k < n; k++ {
		dist := ds[k%len(ds)]
		d = append(d, r.Bytes(dist)...)
		copyFrom(dist, 250, true)
	}
	cursor := 16
	for _, l := range []int{210, 146, 18, 10, 5} {
		for k := 0; k < n; k++ {
			copyFrom(len(d)-cursor, l, true)
			cursor += l + 5
		}
	}
	d = append(d, r.Bytes(filler)...)
	copyFrom(56001, 273, false)
	return append(d, r.Bytes(300)...)
}

// trainedStages is the number of bytes the training stages of a "trained"
// payload take (it does not depend on the seed).
func trainedStages() int {
	trainedOnce.Do(func() { trainedLen = len(trainedPayload(NewRng(1), 60000, 0)) - 60000 - 273 - 300 })
	return trainedLen
}

var (
	trainedOnce sync.Once
	trainedLen  int
)

// surpriseTail is what a "surprise" payload appends to its A+N bytes of noise.
const surpriseTail = 150*6 + 160 + 274 + 300

// Lit returns a literal payload.
func Lit(b []byte) Payload { return Payload{Kind: "lit", Hex: hex.EncodeToString(b)} }

// GenPayload draws a payload recipe of at most max bytes. Families follow
// DESIGN.md §2.4.
func GenPayload(r *Rng, max int) Payload {
	if max < 0 {
		max = 0
	}
	size := func() int {
		switch r.Weighted([]int{2, 3, 10, 10, 4}) {
		case 0:
			return 0
		case 1:
			return r.Range(1, 3)
		case 2:
			return r.Range(4, 300)
		case 3:
			return r.Range(300, 5000)
		}
		return r.Range(0, max)
	}
	n := size()
	if n > max {
		n = max
	}
	switch r.Weighted([]int{2, 2, 4, 4, 3, 2, 2, 2, 3}) {
	case 0:
		return Payload{Kind: "zeros", N: n}
	case 1:
		return Payload{Kind: "run", N: n, A: r.Intn(256)}
	case 2:
		return Payload{Kind: "prng", N: n, Seed: r.Uint64()}
	case 3:
		return Payload{Kind: "text", N: n, Seed: r.Uint64()}
	case 4:
		return Payload{Kind: "zprefix", N: n, Seed: r.Uint64(), A: r.Range(1, 8)}
	case 5:
		return Payload{Kind: "alpha", N: n, Seed: r.Uint64(), A: r.Range(2, 4)}
	case 6:
		return Payload{Kind: "period", N: n, Seed: r.Uint64(), A: r.Range(1, 300)}
	case 7:
		h := n / 2
		return Payload{Kind: "dup", Parts: []Payload{{Kind: "prng", N: h, Seed: r.Uint64()}}}
	}
	// alternating compressible / incompressible segments
	k := r.Range(2, 4)
	parts := make([]Payload, 0, k)
	left := n
	for i := 0; i < k && left > 0; i++ {
		m := left
		if i < k-1 {
			m = r.Range(0, left)
		}
		left -= m
		if r.Bool() {
			parts = append(parts, Payload{Kind: "prng", N: m, Seed: r.Uint64()})
		} else {
			parts = append(parts, Payload{Kind: "text", N: m, Seed: r.Uint64()})
		}
	}
	return Payload{Kind: "concat", Parts: parts}
}

// ShrinkPayload proposes simpler recipes for p.
func ShrinkPayload(p Payload) []Payload {
	var out []Payload
	n := p.Len()
	if n == 0 {
		return nil
	}
	switch p.Kind {
	case "concat":
		for i := range p.Parts {
			q := Payload{Kind: "concat"}
			q.Parts = append(q.Parts, p.Parts[:i]...)
			q.Parts = append(q.Parts, p.Parts[i+1:]...)
			out = append(out, q)
		}
		if len(p.Parts) == 1 {
			out = append(out, p.Parts[0])
		}
		for i := range p.Parts {
			for _, s := range ShrinkPayload(p.Parts[i]) {
				q := Payload{Kind: "concat", Parts: append([]Payload(nil), p.Parts...)}
				q.Parts[i] = s
				out = append(out, q)
			}
		}
	case "dup":
		out = append(out, p.Parts[0])
		for _, s := range ShrinkPayload(p.Parts[0]) {
			out = append(out, Payload{Kind: "dup", Parts: []Payload{s}})
		}
	case "lit":
		b := p.Bytes()
		out = append(out, Lit(b[:len(b)/2]), Lit(b[len(b)/2:]), Lit(b[:len(b)-1]), Lit(b[1:]))
	default:
		for _, m := range []int{0, n / 2, n - 1, n - n/4} {
			if m < n && m >= 0 {
				q := p
				q.N = m
				out = append(out, q)
			}
		}
		if p.Kind != "zeros" {
			out = append(out, Payload{Kind: "zeros", N: n})
		}
		if n <= 64 {
			out = append(out, Lit(p.Bytes()))
		}
	}
	return out
}
