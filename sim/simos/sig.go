package simos

import (
	"bytes"
	"runtime"
	"strconv"
	"sync"
)

// Signal simulation.
//
// gxz starts one goroutine per file ("handler") that waits for either its quit
// channel or a signal; on a signal it removes the temporary file and exits
// with status 7. The simulator owns both ends: simsignal.Notify/Stop are the
// rewritten os/signal calls, and the scratch copy's `close(quit)` calls are
// rewritten to simsignal.CloseQuit, which closes the channel and then waits
// until the handler has acknowledged (called Stop) - so the handler is in a
// known state (armed / disarmed / handling) at every file-system operation.
//
// With Plan.SigAt = i the simulated SIGINT is delivered when the main task
// reaches its i-th mutating operation. From then on two tasks exist; both park
// at every simos call ("gate") and the plan decides who proceeds: the handler
// performs its first operation after Plan.SigRemoveAfter further main
// operations and its second after Plan.SigExitAfter more. One integer triple
// is one exactly repeatable interleaving.

type sigState struct {
	ch        chan<- Signal
	armed     bool // Notify called, quit not yet acknowledged
	delivered bool
	stopped   bool
	mainGoid  int64
	// handler parking
	handlerAt   chan struct{} // handler arrived at a gate
	handlerGo   chan struct{} // handler may proceed
	handlerOps  int           // operations the handler has been granted
	mainSince   int           // main operations since the last handler step
	handlerGone bool
	cond        *sync.Cond
}

var sigRegistry sync.Map // chan<- Signal -> *World

func goid() int64 {
	var buf [64]byte
	n := runtime.Stack(buf[:], false)
	// "goroutine 123 ["
	b := buf[:n]
	b = bytes.TrimPrefix(b, []byte("goroutine "))
	i := bytes.IndexByte(b, ' ')
	if i < 0 {
		return -1
	}
	id, _ := strconv.ParseInt(string(b[:i]), 10, 64)
	return id
}

// BeginInvocation is called by the harness on the goroutine that runs main().
func (w *World) BeginInvocation() {
	w.mu.Lock()
	w.sig = &sigState{mainGoid: goid(), handlerAt: make(chan struct{}, 1), handlerGo: make(chan struct{}, 1)}
	w.sig.cond = sync.NewCond(&w.mu)
	w.mu.Unlock()
}

// NotifyChan registers a channel for simulated signals (simsignal.Notify).
func NotifyChan(c chan<- Signal) {
	w := world()
	w.mu.Lock()
	if w.sig != nil {
		w.sig.ch = c
		w.sig.armed = true
		w.sig.stopped = false
	}
	w.mu.Unlock()
	sigRegistry.Store(c, w)
}

// StopChan unregisters a channel (simsignal.Stop, called by the handler).
func StopChan(c chan<- Signal) {
	v, ok := sigRegistry.LoadAndDelete(c)
	if !ok {
		return
	}
	w := v.(*World)
	w.mu.Lock()
	if w.sig != nil && w.sig.ch == c {
		w.sig.stopped = true
		w.sig.armed = false
		w.sig.cond.Broadcast()
	}
	w.mu.Unlock()
}

// CloseQuit replaces close(quit) in the scratch copy of gxz: it closes the
// handler's quit channel and waits until the handler has acknowledged by
// calling Stop - unless the handler is already busy with a delivered signal.
func CloseQuit(quit chan<- struct{}) {
	w := world()
	close(quit)
	w.mu.Lock()
	s := w.sig
	if s == nil || s.ch == nil {
		w.mu.Unlock()
		return
	}
	s.armed = false
	for !s.stopped && !s.delivered && !w.Dead && !w.Exited {
		s.cond.Wait()
	}
	w.mu.Unlock()
}

// WaitDone replaces a bare `<-done` in the scratch copy of gxz: the main task
// waits for the handler goroutine to finish. If the handler has taken a
// signal it now runs to its end (it is parked at a gate and only the main task
// could grant it steps - which it cannot while it blocks on a channel); the
// process then has exited through the handler and main unwinds. Otherwise the
// handler leaves through its quit branch and the receive returns at once.
func WaitDone(done <-chan struct{}) {
	w := world()
	w.mu.Lock()
	s := w.sig
	if s != nil && s.delivered && !s.handlerGone {
		for !s.handlerGone && !w.Dead && !w.Exited {
			s.mainSince = 0
			s.handlerOps++
			w.mu.Unlock()
			s.handlerGo <- struct{}{}
			<-s.handlerAt
			w.mu.Lock()
		}
		w.mu.Unlock()
		panic(Killed{})
	}
	w.mu.Unlock()
	<-done
}

// task reports which task is running (0 main, 1 signal handler). Caller holds
// no lock or w.mu; only valid fields are read.
func (w *World) task() int {
	s := w.sig
	if s == nil || !s.delivered {
		return 0
	}
	if goid() != s.mainGoid {
		return 1
	}
	return 0
}

// gate is the scheduling point in front of every operation.
func (w *World) gate(kind int) {
	mutating := kind == gateMut
	w.mu.Lock()
	s := w.sig
	if s != nil && kind == gateRead && s.armed && !s.delivered {
		w.ArmedReads++
	}
	if s == nil || (w.Plan.SigAt == 0 && w.Plan.SigAtRead == 0) {
		w.mu.Unlock()
		return
	}
	if w.Dead || w.Exited {
		w.mu.Unlock()
		if s.delivered && goid() != s.mainGoid {
			runtime.Goexit()
		}
		return // enter() unwinds
	}
	isMain := !s.delivered || goid() == s.mainGoid
	if !isMain {
		// handler: announce arrival, wait for the grant
		w.mu.Unlock()
		s.handlerAt <- struct{}{}
		<-s.handlerGo
		w.mu.Lock()
		dead := w.Dead || w.Exited
		w.mu.Unlock()
		if dead {
			runtime.Goexit()
		}
		return
	}
	// main task
	if !s.delivered {
		if (mutating && w.Plan.SigAt > 0 && w.NMut+1 == w.Plan.SigAt) || (kind == gateRead && w.Plan.SigAtRead > 0 && s.armed && w.ArmedReads == w.Plan.SigAtRead) {
			if !s.armed {
				// no handler is listening: the default action of SIGINT ends the process
				w.Dead = true
				w.Fired["sigint-default-action"]++
				w.mu.Unlock()
				return
			}
			s.delivered = true
			w.Fired["sigint-delivered"]++
			ch := s.ch
			w.mu.Unlock()
			select {
			case ch <- Interrupt:
			default:
			}
			<-s.handlerAt // the handler wakes up and parks at its first operation
			w.mu.Lock()
		} else {
			w.mu.Unlock()
			return
		}
	}
	// both tasks are parked here; decide who proceeds
	for !s.handlerGone {
		want := w.Plan.SigRemoveAfter
		if s.handlerOps >= 1 {
			want = w.Plan.SigExitAfter
		}
		if s.mainSince < want {
			break // main proceeds
		}
		// the handler performs one operation, then parks again or exits
		s.mainSince = 0
		s.handlerOps++
		w.mu.Unlock()
		s.handlerGo <- struct{}{}
		<-s.handlerAt
		w.mu.Lock()
		if w.Dead || w.Exited {
			break
		}
	}
	s.mainSince++
	w.mu.Unlock()
}

// handlerExit is called by Exit on the handler task: the process ends with
// the handler's status; the main task unwinds at its next operation.
func (w *World) handlerExit(code int) {
	s := w.sig
	w.Exited = true
	w.Code = code
	w.log(OpRec{Kind: "exit", N: code, Task: 1})
	s.handlerGone = true
	w.mu.Unlock()
	s.handlerAt <- struct{}{}
	runtime.Goexit()
}
