package simos

// Signal simulation is added by sigsched.go when built with a toolchain that
// has testing/synctest; this file holds the parts that need no scheduler.

type sigState struct{}

// gate is the scheduling point in front of every operation. Without signal
// simulation exactly one task exists and the gate is open.
func (w *World) gate(mutating bool) {}

// task reports which task is running (0 main, 1 signal handler).
func (w *World) task() int { return 0 }

// NotifyChan registers a channel for simulated signals (called by simsignal).
func NotifyChan(c chan<- Signal) {
	w := world()
	w.mu.Lock()
	w.mu.Unlock()
}

// StopChan unregisters a channel.
func StopChan(c chan<- Signal) {}
