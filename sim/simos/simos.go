// Package simos is the simulated operating system under gxz: an in-memory
// file system with modes, O_EXCL and atomic rename, standard streams, process
// exit, and a numbered log of file-system operations at which the simulator
// can kill the process or make the operation fail. A scratch copy of cmd/gxz,
// internal/gflag and internal/xlog imports it in place of package os.
package simos

import (
	"fmt"
	"io"
	"os"
	"path"
	"sort"
	"strings"
	"sync"
	"syscall"
	"time"
)

// Aliases and constants of package os that the rewritten code refers to.
type (
	FileMode  = os.FileMode
	FileInfo  = os.FileInfo
	PathError = os.PathError
	Signal    = os.Signal
)

const (
	O_RDONLY = os.O_RDONLY
	O_WRONLY = os.O_WRONLY
	O_RDWR   = os.O_RDWR
	O_APPEND = os.O_APPEND
	O_CREATE = os.O_CREATE
	O_EXCL   = os.O_EXCL
	O_SYNC   = os.O_SYNC
	O_TRUNC  = os.O_TRUNC

	ModeDir        = os.ModeDir
	ModeSymlink    = os.ModeSymlink
	ModeSetuid     = os.ModeSetuid
	ModeSetgid     = os.ModeSetgid
	ModeSticky     = os.ModeSticky
	ModePerm       = os.ModePerm
	ModeNamedPipe  = os.ModeNamedPipe
	ModeType       = os.ModeType
	ModeCharDevice = os.ModeCharDevice
)

var (
	Interrupt Signal = os.Interrupt
	Kill      Signal = os.Kill

	ErrNotExist = os.ErrNotExist
	ErrExist    = os.ErrExist
)

func IsNotExist(err error) bool   { return os.IsNotExist(err) }
func IsExist(err error) bool      { return os.IsExist(err) }
func IsPermission(err error) bool { return os.IsPermission(err) }

// Args is the argument vector of the simulated process.
var Args = []string{"gxz"}

// ---- world ----

// Node is a file-system object.
type Node struct {
	Data   []byte
	Mode   FileMode // permission bits plus ModeDir/ModeSymlink/special bits
	Target string   // symlink target
}

// OpRec is one logged file-system operation.
type OpRec struct {
	Seq  int    // position in the log
	Mut  int    // 1-based index among mutating operations, 0 for others
	Kind string // create open stat lstat fstat read write write-stdout close rename remove exit
	Path string
	N    int
	Err  string
	Task int // 0 main, 1 signal handler
}

// Plan is the fault plan of one simulated invocation.
type Plan struct {
	// KillAt: kill the process at the i-th mutating operation (1-based; 0 none).
	KillAt int `json:"kill_at,omitempty"`
	// KillWhen: before | after | mid (mid: writes only, MidBytes persisted first)
	KillWhen string `json:"kill_when,omitempty"`
	MidBytes int    `json:"mid_bytes,omitempty"`
	// FailAt: make the i-th mutating operation fail with Errno.
	FailAt  int    `json:"fail_at,omitempty"`
	Errno   string `json:"errno,omitempty"`   // ENOSPC | EIO
	Partial int    `json:"partial,omitempty"` // bytes persisted by a failing write
	// FailMetaAt: make the j-th non-mutating metadata operation (lstat, stat,
	// fstat, open for reading; 1-based) fail with EIO.
	FailMetaAt int `json:"fail_meta_at,omitempty"`
	// FailAt2: a second, independent failing operation (seeded two-fault runs).
	FailAt2 int `json:"fail_at2,omitempty"`
	// ReadFailOff: reading the named file fails with EIO at this byte offset.
	ReadFail    bool   `json:"read_fail,omitempty"`
	ReadFailOff int    `json:"read_fail_off,omitempty"`
	ReadPath    string `json:"read_path,omitempty"`
	// SigAt: deliver a simulated SIGINT when the i-th mutating operation of the
	// main task is reached (the operation itself is then scheduled against the
	// handler task by Sched).
	SigAt int `json:"sig_at,omitempty"`
	// SigAtRead: deliver the SIGINT at the j-th read of the main task counted
	// from the moment the handler is installed (the copy loop of gxz).
	SigAtRead int `json:"sig_at_read,omitempty"`
	// SigRemoveAfter / SigExitAfter: the handler performs its first operation
	// (removing the temporary file) after this many further operations of the
	// main task, and its second (exit 7) after this many more.
	SigRemoveAfter int `json:"sig_remove_after,omitempty"`
	SigExitAfter   int `json:"sig_exit_after,omitempty"`
}

// World is the state of the simulated machine for one invocation history.
type World struct {
	mu      sync.Mutex
	Nodes   map[string]*Node
	Umask   FileMode
	Ops     []OpRec
	NMut    int
	Plan    Plan
	Dead    bool // killed
	Exited  bool
	Code    int
	Stdin   []byte
	stdinAt int
	Stdout  []byte
	Stderr  []byte
	TTY     bool // stdout is a terminal
	// StdoutKind: what stands behind standard output: "" or "pipe", "devnull",
	// "file" (none of them a terminal), "tty"
	StdoutKind string
	nextFd     uintptr
	Fired      map[string]int // fault kinds that fired
	// NMeta counts non-mutating metadata operations (lstat, stat, fstat, open).
	NMeta int
	// ArmedReads counts reads of the main task while a signal handler listens.
	ArmedReads int
	// ArmedMuts lists the mutating operations performed while a handler listened.
	ArmedMuts []int
	// signal simulation
	sig *sigState
}

// NewWorld creates an empty world with umask 022.
func NewWorld() *World {
	return &World{Nodes: map[string]*Node{}, Umask: 0o022, nextFd: 3, Fired: map[string]int{}}
}

var (
	curMu sync.Mutex
	cur   *World
)

// SetWorld installs the world seen by the simulated process.
func SetWorld(w *World) {
	curMu.Lock()
	cur = w
	curMu.Unlock()
}

func world() *World {
	curMu.Lock()
	w := cur
	curMu.Unlock()
	if w == nil {
		panic("simos: no world installed")
	}
	return w
}

// Killed is the sentinel panic that unwinds a killed process.
type Killed struct{}

// Exit is the sentinel panic of os.Exit.
type ExitPanic struct{ Code int }

// Exit terminates the simulated process.
func Exit(code int) {
	code &= 0xff // exit(2): only the low eight bits reach the parent
	w := world()
	w.gate(gateOther)
	w.mu.Lock()
	if w.task() == 1 && !w.Dead && !w.Exited {
		w.handlerExit(code) // does not return
	}
	if w.Dead {
		w.mu.Unlock()
		panic(Killed{})
	}
	if !w.Exited {
		w.Exited = true
		w.Code = code
		w.log(OpRec{Kind: "exit", N: code, Task: w.task()})
	}
	w.mu.Unlock()
	panic(ExitPanic{code})
}

func (w *World) log(r OpRec) {
	r.Seq = len(w.Ops)
	w.Ops = append(w.Ops, r)
}

func errno(name string) syscall.Errno {
	switch name {
	case "ENOSPC":
		return syscall.ENOSPC
	case "EIO", "":
		return syscall.EIO
	case "EPIPE":
		return syscall.EPIPE
	}
	return syscall.EIO
}

// enter is called at the start of every operation; it unwinds dead processes
// and lets the signal scheduler decide which task proceeds.
func (w *World) enter(mutating bool) {
	k := gateOther
	if mutating {
		k = gateMut
	}
	w.enterKind(k)
}

const (
	gateOther = iota
	gateMut
	gateRead
)

func (w *World) enterKind(kind int) {
	w.gate(kind)
	w.mu.Lock()
	if w.Dead || w.Exited {
		w.mu.Unlock()
		panic(Killed{})
	}
}

// mutate numbers a mutating operation and applies the kill/fault plan.
// It returns (failErr, killAfter, midBytes): failErr non-nil means the
// operation must fail; killAfter means the process dies after applying it;
// a "before" kill unwinds here. The caller holds w.mu.
func (w *World) mutate(kind string) (fail error, killAfter bool, mid int) {
	w.NMut++
	i := w.NMut
	if w.sig != nil && w.sig.armed && !w.sig.delivered {
		w.ArmedMuts = append(w.ArmedMuts, i)
	}
	mid = -1
	if w.Plan.KillAt == i {
		switch w.Plan.KillWhen {
		case "after":
			killAfter = true
		case "mid":
			if kind == "write" || kind == "write-stdout" {
				mid = w.Plan.MidBytes
				killAfter = true
			} else {
				killAfter = true
			}
		default:
			w.Dead = true
			w.Fired["kill-before-"+kind]++
			w.mu.Unlock()
			panic(Killed{})
		}
		if mid >= 0 {
			w.Fired["kill-mid-"+kind]++
		} else {
			w.Fired["kill-after-"+kind]++
		}
	}
	if w.Plan.FailAt == i || (w.Plan.FailAt2 == i && i != 0) {
		e := w.Plan.Errno
		if e == "" {
			e = "EIO"
		}
		w.Fired["fail-"+kind+"-"+e]++
		fail = errno(e)
	}
	return
}

// meta numbers a non-mutating metadata operation; it reports whether the plan
// makes it fail. The caller holds w.mu.
func (w *World) meta(kind string) bool {
	w.NMeta++
	if w.Plan.FailMetaAt == w.NMeta {
		w.Fired["metafail-"+kind+"-EIO"]++
		return true
	}
	return false
}

func (w *World) die() {
	w.Dead = true
}

func clean(p string) string { return path.Clean(p) }

// NameMax is the longest file name (one path component) the simulated file
// system stores, as on ext4, xfs, btrfs and tmpfs.
const NameMax = 255

// tooLong reports whether a component of p exceeds NameMax (ENAMETOOLONG).
func tooLong(p string) bool {
	for _, c := range strings.Split(p, "/") {
		if len(c) > NameMax {
			return true
		}
	}
	return false
}

func (w *World) resolve(p string, follow bool) (string, *Node) {
	p = clean(p)
	n := w.Nodes[p]
	for i := 0; follow && n != nil && n.Mode&ModeSymlink != 0 && i < 8; i++ {
		t := n.Target
		if !path.IsAbs(t) {
			t = path.Join(path.Dir(p), t)
		}
		p = clean(t)
		n = w.Nodes[p]
	}
	return p, n
}

func (w *World) dirOK(p string) bool {
	d := path.Dir(clean(p))
	if d == "." || d == "/" {
		return true
	}
	n := w.Nodes[d]
	return n != nil && n.Mode&ModeDir != 0
}

// ---- files ----

// File is an open file of the simulated process.
type File struct {
	name   string
	p      string
	node   *Node
	fd     uintptr
	off    int
	wr     bool
	rd     bool
	closed bool
}

var (
	Stdin  = &File{name: "/dev/stdin", fd: 0, rd: true}
	Stdout = &File{name: "/dev/stdout", fd: 1, wr: true}
	Stderr = &File{name: "/dev/stderr", fd: 2, wr: true}
)

func (f *File) Name() string { return f.name }
func (f *File) Fd() uintptr  { return f.fd }

type fileInfo struct {
	name  string
	size  int64
	mode  FileMode
	nlink int
}

func (fi fileInfo) Name() string       { return fi.name }
func (fi fileInfo) Size() int64        { return fi.size }
func (fi fileInfo) Mode() FileMode     { return fi.mode }
func (fi fileInfo) ModTime() time.Time { return time.Unix(1700000000, 0) }
func (fi fileInfo) IsDir() bool        { return fi.mode&ModeDir != 0 }
func (fi fileInfo) Sys() interface{} {
	return &syscall.Stat_t{Nlink: uint64(fi.nlink), Size: fi.size, Mode: uint32(fi.mode.Perm())}
}

// nlink counts the names of a node (hard links).
func (w *World) nlink(n *Node) int {
	k := 0
	for _, m := range w.Nodes {
		if m == n {
			k++
		}
	}
	return k
}

func pathErr(op, p string, e error) error { return &PathError{Op: op, Path: p, Err: e} }

func stat(op, name string, follow bool) (FileInfo, error) {
	w := world()
	w.enter(false)
	defer w.mu.Unlock()
	if w.meta(op) {
		w.log(OpRec{Kind: op, Path: name, Err: "EIO", Task: w.task()})
		return nil, pathErr(op, name, syscall.EIO)
	}
	if tooLong(name) {
		w.log(OpRec{Kind: op, Path: name, Err: "ENAMETOOLONG", Task: w.task()})
		return nil, pathErr(op, name, syscall.ENAMETOOLONG)
	}
	_, n := w.resolve(name, follow)
	if n == nil {
		w.log(OpRec{Kind: op, Path: name, Err: "ENOENT", Task: w.task()})
		return nil, pathErr(op, name, syscall.ENOENT)
	}
	w.log(OpRec{Kind: op, Path: name, Task: w.task()})
	return fileInfo{name: path.Base(name), size: int64(len(n.Data)), mode: n.Mode, nlink: w.nlink(n)}, nil
}

// Readlink returns the destination of a symbolic link.
func Readlink(name string) (string, error) {
	w := world()
	w.enter(false)
	defer w.mu.Unlock()
	w.meta("readlink")
	n := w.Nodes[clean(name)]
	switch {
	case tooLong(name):
		return "", pathErr("readlink", name, syscall.ENAMETOOLONG)
	case n == nil:
		return "", pathErr("readlink", name, syscall.ENOENT)
	case n.Mode&ModeSymlink == 0:
		return "", pathErr("readlink", name, syscall.EINVAL)
	}
	w.log(OpRec{Kind: "readlink", Path: name, Task: w.task()})
	return n.Target, nil
}

func Stat(name string) (FileInfo, error)  { return stat("stat", name, true) }
func Lstat(name string) (FileInfo, error) { return stat("lstat", name, false) }

func Open(name string) (*File, error) { return OpenFile(name, O_RDONLY, 0) }

func Create(name string) (*File, error) {
	return OpenFile(name, O_RDWR|O_CREATE|O_TRUNC, 0o666)
}

func OpenFile(name string, flag int, perm FileMode) (*File, error) {
	w := world()
	mutating := flag&O_CREATE != 0
	w.enter(mutating)
	p, n := w.resolve(name, true)
	acc := flag & (O_RDONLY | O_WRONLY | O_RDWR)
	if !mutating || (n != nil && flag&O_EXCL == 0 && flag&O_TRUNC == 0) {
		// plain open
		defer w.mu.Unlock()
		if w.meta("open") {
			w.log(OpRec{Kind: "open", Path: name, Err: "EIO", Task: w.task()})
			return nil, pathErr("open", name, syscall.EIO)
		}
		if tooLong(name) {
			w.log(OpRec{Kind: "open", Path: name, Err: "ENAMETOOLONG", Task: w.task()})
			return nil, pathErr("open", name, syscall.ENAMETOOLONG)
		}
		if n == nil {
			w.log(OpRec{Kind: "open", Path: name, Err: "ENOENT", Task: w.task()})
			return nil, pathErr("open", name, syscall.ENOENT)
		}
		if n.Mode&ModeDir != 0 && acc != O_RDONLY {
			return nil, pathErr("open", name, syscall.EISDIR)
		}
		if acc != O_WRONLY && n.Mode&0o400 == 0 {
			w.log(OpRec{Kind: "open", Path: name, Err: "EACCES", Task: w.task()})
			return nil, pathErr("open", name, syscall.EACCES)
		}
		w.log(OpRec{Kind: "open", Path: name, Task: w.task()})
		f := &File{name: name, p: p, node: n, fd: w.nextFd, rd: acc != O_WRONLY, wr: acc != O_RDONLY}
		w.nextFd++
		return f, nil
	}
	// creating (or truncating) open: a mutating operation. The call is made -
	// and is therefore a kill and fault point like any other - even when the
	// kernel is going to refuse it (O_EXCL on an existing name).
	fail, killAfter, _ := w.mutate("create")
	if fail != nil {
		w.log(OpRec{Kind: "create", Path: name, Err: fail.Error(), Mut: w.NMut, Task: w.task()})
		w.mu.Unlock()
		return nil, pathErr("open", name, fail)
	}
	refuse := func(e syscall.Errno, tag string) (*File, error) {
		w.log(OpRec{Kind: "create", Path: name, Err: tag, Mut: w.NMut, Task: w.task()})
		if killAfter {
			w.die()
			w.mu.Unlock()
			panic(Killed{})
		}
		w.mu.Unlock()
		return nil, pathErr("open", name, e)
	}
	if tooLong(name) {
		return refuse(syscall.ENAMETOOLONG, "ENAMETOOLONG")
	}
	if n != nil && flag&O_EXCL != 0 {
		return refuse(syscall.EEXIST, "EEXIST")
	}
	if _, ln := w.resolve(name, false); ln != nil && flag&O_EXCL != 0 {
		return refuse(syscall.EEXIST, "EEXIST")
	}
	if !w.dirOK(p) {
		return refuse(syscall.ENOENT, "ENOENT")
	}
	if n == nil {
		n = &Node{Mode: perm &^ w.Umask & ModePerm}
		w.Nodes[p] = n
	} else if flag&O_TRUNC != 0 {
		n.Data = nil
	}
	w.log(OpRec{Kind: "create", Path: name, Mut: w.NMut, Task: w.task()})
	f := &File{name: name, p: p, node: n, fd: w.nextFd, rd: acc != O_WRONLY, wr: acc != O_RDONLY}
	w.nextFd++
	if killAfter {
		w.die()
		w.mu.Unlock()
		panic(Killed{})
	}
	w.mu.Unlock()
	return f, nil
}

// Seek sets the offset of the next Read or Write (lseek). Seeking beyond the
// end is allowed; the gap exists only once something is written behind it.
func (f *File) Seek(offset int64, whence int) (int64, error) {
	w := world()
	w.enter(false)
	defer w.mu.Unlock()
	if f.fd < 3 {
		return 0, pathErr("seek", f.name, syscall.ESPIPE)
	}
	if f.closed {
		return 0, pathErr("seek", f.name, os.ErrClosed)
	}
	base := int64(0)
	switch whence {
	case 1:
		base = int64(f.off)
	case 2:
		base = int64(len(f.node.Data))
	}
	if base+offset < 0 {
		return 0, pathErr("seek", f.name, syscall.EINVAL)
	}
	f.off = int(base + offset)
	return base + offset, nil
}

func (f *File) Stat() (FileInfo, error) {
	w := world()
	w.enter(false)
	defer w.mu.Unlock()
	if f.fd < 3 {
		return fileInfo{name: f.name, mode: ModeCharDevice | 0o620}, nil
	}
	if f.closed {
		return nil, pathErr("stat", f.name, os.ErrClosed)
	}
	if w.meta("fstat") {
		w.log(OpRec{Kind: "fstat", Path: f.name, Err: "EIO", Task: w.task()})
		return nil, pathErr("stat", f.name, syscall.EIO)
	}
	w.log(OpRec{Kind: "fstat", Path: f.name, Task: w.task()})
	return fileInfo{name: path.Base(f.name), size: int64(len(f.node.Data)), mode: f.node.Mode, nlink: w.nlink(f.node)}, nil
}

func (f *File) Read(p []byte) (int, error) {
	w := world()
	w.enterKind(gateRead)
	defer w.mu.Unlock()
	if f.fd == 0 {
		if w.stdinAt >= len(w.Stdin) {
			return 0, io.EOF
		}
		n := copy(p, w.Stdin[w.stdinAt:])
		w.stdinAt += n
		return n, nil
	}
	if f.closed || !f.rd {
		return 0, pathErr("read", f.name, os.ErrClosed)
	}
	data := f.node.Data
	end := len(data)
	failing := w.Plan.ReadFail && clean(w.Plan.ReadPath) == f.p
	if failing && w.Plan.ReadFailOff < end {
		end = w.Plan.ReadFailOff
	}
	if f.off >= end {
		if failing && w.Plan.ReadFailOff <= len(data) {
			w.Fired["read-EIO"]++
			w.log(OpRec{Kind: "read", Path: f.name, Err: "EIO", Task: w.task()})
			return 0, pathErr("read", f.name, syscall.EIO)
		}
		return 0, io.EOF
	}
	n := copy(p, data[f.off:end])
	f.off += n
	return n, nil
}

func (f *File) Write(p []byte) (int, error) {
	w := world()
	if f.fd == 2 {
		// stderr: diagnostics only, never a fault or kill point
		w.mu.Lock()
		w.Stderr = append(w.Stderr, p...)
		w.mu.Unlock()
		return len(p), nil
	}
	w.enter(true)
	kind := "write"
	if f.fd == 1 {
		kind = "write-stdout"
	} else if f.closed || !f.wr {
		w.mu.Unlock()
		return 0, pathErr("write", f.name, os.ErrClosed)
	}
	fail, killAfter, mid := w.mutate(kind)
	apply := func(b []byte) {
		if f.fd == 1 {
			w.Stdout = append(w.Stdout, b...)
			return
		}
		// pwrite semantics at the file offset: a gap left by Seek reads as
		// zeros, existing bytes are overwritten in place
		if f.off > len(f.node.Data) {
			f.node.Data = append(f.node.Data, make([]byte, f.off-len(f.node.Data))...)
		}
		n := copy(f.node.Data[f.off:], b)
		f.node.Data = append(f.node.Data, b[n:]...)
		f.off += len(b)
	}
	if fail != nil {
		k := w.Plan.Partial
		if k >= len(p) {
			k = len(p) - 1
		}
		if k < 0 {
			k = 0
		}
		apply(p[:k])
		w.log(OpRec{Kind: kind, Path: f.name, N: k, Err: fail.Error(), Mut: w.NMut, Task: w.task()})
		w.mu.Unlock()
		return k, pathErr("write", f.name, fail)
	}
	if mid >= 0 {
		if mid > len(p) {
			mid = len(p)
		}
		apply(p[:mid])
		w.log(OpRec{Kind: kind, Path: f.name, N: mid, Err: "killed", Mut: w.NMut, Task: w.task()})
		w.die()
		w.mu.Unlock()
		panic(Killed{})
	}
	apply(p)
	w.log(OpRec{Kind: kind, Path: f.name, N: len(p), Mut: w.NMut, Task: w.task()})
	if killAfter {
		w.die()
		w.mu.Unlock()
		panic(Killed{})
	}
	w.mu.Unlock()
	return len(p), nil
}

func (f *File) Close() error {
	w := world()
	if f.fd < 3 {
		return nil
	}
	w.enter(true)
	if f.closed {
		w.mu.Unlock()
		return pathErr("close", f.name, os.ErrClosed)
	}
	fail, killAfter, _ := w.mutate("close")
	// the descriptor is gone whether or not close reports an error
	f.closed = true
	if fail != nil {
		w.log(OpRec{Kind: "close", Path: f.name, Err: fail.Error(), Mut: w.NMut, Task: w.task()})
		w.mu.Unlock()
		return pathErr("close", f.name, fail)
	}
	w.log(OpRec{Kind: "close", Path: f.name, Mut: w.NMut, Task: w.task()})
	if killAfter {
		w.die()
		w.mu.Unlock()
		panic(Killed{})
	}
	w.mu.Unlock()
	return nil
}

func Remove(name string) error {
	w := world()
	w.enter(true)
	p, n := w.resolve(name, false)
	// the call is made, and numbered, whatever the kernel is going to answer
	fail, killAfter, _ := w.mutate("remove")
	finish := func(err error, tag string) error {
		w.log(OpRec{Kind: "remove", Path: name, Err: tag, Mut: w.NMut, Task: w.task()})
		if killAfter {
			w.die()
			w.mu.Unlock()
			panic(Killed{})
		}
		w.mu.Unlock()
		return err
	}
	if fail != nil {
		w.log(OpRec{Kind: "remove", Path: name, Err: fail.Error(), Mut: w.NMut, Task: w.task()})
		w.mu.Unlock()
		return pathErr("remove", name, fail)
	}
	if tooLong(name) {
		return finish(pathErr("remove", name, syscall.ENAMETOOLONG), "ENAMETOOLONG")
	}
	if n == nil {
		return finish(pathErr("remove", name, syscall.ENOENT), "ENOENT")
	}
	if n.Mode&ModeDir != 0 {
		// os.Remove falls back to rmdir; directories of the scenarios are never
		// emptied by gxz, so the kernel's answer for a directory is what counts
		for q := range w.Nodes {
			if path.Dir(q) == p {
				return finish(pathErr("remove", name, syscall.ENOTEMPTY), "ENOTEMPTY")
			}
		}
	}
	delete(w.Nodes, p)
	return finish(nil, "")
}

func Rename(oldpath, newpath string) error {
	w := world()
	w.enter(true)
	op, n := w.resolve(oldpath, false)
	np := clean(newpath)
	// os.Rename looks at the new name first (lstat) and answers EEXIST itself,
	// without a rename call, when a directory sits there; a failing lstat is
	// ignored by it
	w.meta("lstat")
	w.log(OpRec{Kind: "lstat", Path: newpath, Task: w.task()})
	if t := w.Nodes[np]; t != nil && t.Mode&ModeDir != 0 && n != nil {
		w.meta("lstat")
		w.log(OpRec{Kind: "lstat", Path: oldpath, Task: w.task()})
		if t != n {
			w.mu.Unlock()
			return &os.LinkError{Op: "rename", Old: oldpath, New: newpath, Err: syscall.EEXIST}
		}
	}
	fail, killAfter, _ := w.mutate("rename")
	finish := func(e syscall.Errno, tag string) error {
		w.log(OpRec{Kind: "rename", Path: oldpath + " -> " + newpath, Err: tag, Mut: w.NMut, Task: w.task()})
		if killAfter {
			w.die()
			w.mu.Unlock()
			panic(Killed{})
		}
		w.mu.Unlock()
		if tag == "" {
			return nil
		}
		return &os.LinkError{Op: "rename", Old: oldpath, New: newpath, Err: e}
	}
	if fail != nil {
		w.log(OpRec{Kind: "rename", Path: oldpath + " -> " + newpath, Err: fail.Error(), Mut: w.NMut, Task: w.task()})
		w.mu.Unlock()
		return &os.LinkError{Op: "rename", Old: oldpath, New: newpath, Err: fail}
	}
	if tooLong(oldpath) || tooLong(newpath) {
		return finish(syscall.ENAMETOOLONG, "ENAMETOOLONG")
	}
	if n == nil {
		return finish(syscall.ENOENT, "ENOENT")
	}
	if !w.dirOK(np) {
		return finish(syscall.ENOENT, "ENOENT")
	}
	if t := w.Nodes[np]; t != nil && op != np {
		// rename(2): a directory is only replaced by a directory, and vice versa
		if t.Mode&ModeDir != 0 && n.Mode&ModeDir == 0 {
			return finish(syscall.EISDIR, "EISDIR")
		}
		if t.Mode&ModeDir == 0 && n.Mode&ModeDir != 0 {
			return finish(syscall.ENOTDIR, "ENOTDIR")
		}
	}
	if op != np {
		w.Nodes[np] = n // atomic replace
		delete(w.Nodes, op)
	}
	return finish(0, "")
}

// ---- helpers for the harness (not used by gxz) ----

// Put creates a file in the world.
func (w *World) Put(name string, data []byte, mode FileMode) {
	w.Nodes[clean(name)] = &Node{Data: append([]byte(nil), data...), Mode: mode}
}

// Symlink creates a symbolic link.
func (w *World) Symlink(name, target string) {
	w.Nodes[clean(name)] = &Node{Mode: ModeSymlink | 0o777, Target: target}
}

// Link gives the file target a second name (hard link): both names refer to
// the same node.
func (w *World) Link(name, target string) {
	if n := w.Nodes[clean(target)]; n != nil {
		w.Nodes[clean(name)] = n
	}
}

// SameNode reports whether two names refer to one node.
func (w *World) SameNode(a, b string) bool {
	n := w.Nodes[clean(a)]
	return n != nil && n == w.Nodes[clean(b)]
}

// Names lists the paths of the world in order.
func (w *World) Names() []string {
	var out []string
	for k := range w.Nodes {
		out = append(out, k)
	}
	sort.Strings(out)
	return out
}

// Get returns a node.
func (w *World) Get(name string) *Node { return w.Nodes[clean(name)] }

// Clone copies the file system (not the log or plan).
func (w *World) Clone() *World {
	c := NewWorld()
	c.Umask = w.Umask
	c.TTY = w.TTY
	c.StdoutKind = w.StdoutKind
	c.Stdin = w.Stdin
	seen := map[*Node]*Node{}
	for k, n := range w.Nodes {
		if seen[n] == nil {
			seen[n] = &Node{Data: append([]byte(nil), n.Data...), Mode: n.Mode, Target: n.Target}
		}
		c.Nodes[k] = seen[n] // hard links stay hard links
	}
	return c
}

// MutKinds returns the kinds of the mutating operations in log order.
func (w *World) MutKinds() []string {
	var out []string
	for _, o := range w.Ops {
		if o.Mut > 0 {
			out = append(out, o.Kind)
		}
	}
	return out
}

// LogLines renders the operation log; reads are not part of it (their number
// depends on map iteration order in gxz's format sniffing).
func (w *World) LogLines() []string {
	var out []string
	for _, o := range w.Ops {
		if o.Kind == "read" && o.Err == "" {
			continue
		}
		s := fmt.Sprintf("#%d %s %s", o.Mut, o.Kind, o.Path)
		if o.N != 0 {
			s += fmt.Sprintf(" n=%d", o.N)
		}
		if o.Err != "" {
			s += " err=" + o.Err
		}
		if o.Task != 0 {
			s += " [handler]"
		}
		out = append(out, s)
	}
	return out
}

// StdKind names the kind of object behind a standard descriptor of the
// simulated process (only standard output varies).
func StdKind(fd uintptr) string {
	w := world()
	w.mu.Lock()
	defer w.mu.Unlock()
	if fd != 1 {
		return "pipe"
	}
	if w.TTY {
		return "tty"
	}
	if w.StdoutKind == "" {
		return "pipe"
	}
	return w.StdoutKind
}

// IsTTY reports whether fd is a terminal in the current world.
func IsTTY(fd uintptr) bool {
	w := world()
	w.mu.Lock()
	defer w.mu.Unlock()
	return fd == 1 && w.TTY
}
