package sim

import (
	"encoding/json"
	"os"
	"path/filepath"
)

// Finding is one entry of /verif/known-findings.json. Status "known" entries
// suppress violations with the same (property, class, site) and are
// re-executed at the start of every run; status "fixed" entries are a record
// only and suppress nothing.
type Finding struct {
	Property string          `json:"property"`
	Status   string          `json:"status"` // known | fixed
	Class    string          `json:"class,omitempty"`
	Site     string          `json:"site,omitempty"`
	Commit   string          `json:"commit,omitempty"`
	What     string          `json:"what"`
	Scenario json.RawMessage `json:"scenario,omitempty"`
}

// Findings is the file content.
type Findings struct {
	Comment  string    `json:"comment,omitempty"`
	Findings []Finding `json:"findings"`
}

// LoadFindings reads the known-findings file; a missing file is empty.
func LoadFindings() (*Findings, error) {
	b, err := os.ReadFile(filepath.Join(VerifDir(), "known-findings.json"))
	if os.IsNotExist(err) {
		return &Findings{}, nil
	}
	if err != nil {
		return nil, err
	}
	var f Findings
	if err := json.Unmarshal(b, &f); err != nil {
		return nil, err
	}
	return &f, nil
}
