package sim

import (
	"bytes"
	"crypto/sha256"
	"encoding/binary"
	"encoding/json"
	"fmt"
	"hash"
	"hash/fnv"
	"os"
	"os/exec"
	"path/filepath"
	"runtime"
	"runtime/debug"
	"sort"
	"strings"
	"sync"
	"sync/atomic"
	"time"
)

// Violation describes a failed oracle. (Class, Site) identify the kind of
// failure; shrinking and known-finding matching use exactly that pair.
type Violation struct {
	Class  string `json:"class"`
	Site   string `json:"site"`
	Detail string `json:"detail"`
	// Narrow, if set, is a *C restricted to the single fault that failed
	// (used as first shrinking candidate by enumeration engines).
	Narrow any `json:"-"`
}

func (v *Violation) key() string { return v.Class + "|" + v.Site }

// Viol builds a violation.
func Viol(class, site, format string, a ...any) *Violation {
	return &Violation{Class: class, Site: site, Detail: fmt.Sprintf(format, a...)}
}

// Ctx collects what one run observed. All of it is deterministic in the case.
type Ctx struct {
	Counters map[string]int64
	h        hash.Hash
	shape    hash.Hash64
	Verbose  bool
	Log      []string
	nontriv  int64
	evals    int64
	Tier     string
	// Yield, if set, is called before every API call and inside every sink /
	// source call of the engines (the lock-step scheduler of C14 parks there).
	Yield func()
	// Shared, if set, is an object all tasks of a concurrency case have in
	// common (C14: one lzma.Properties value that every caller re-tunes for
	// its own writer right before creating it).
	Shared any
}

func newCtx(verbose bool, tier string) *Ctx {
	return &Ctx{Counters: map[string]int64{}, h: sha256.New(), shape: fnv.New64a(), Verbose: verbose, Tier: tier}
}

// NewCtx returns a context for use outside the batch runner.
func NewCtx(verbose bool) *Ctx { return newCtx(verbose, "quick") }

// Ev records an event in the run's log (digest, and text when verbose).
func (x *Ctx) Ev(format string, a ...any) {
	s := fmt.Sprintf(format, a...)
	x.h.Write([]byte(s))
	x.h.Write([]byte{'\n'})
	if x.Verbose {
		x.Log = append(x.Log, s)
	}
}

// EvBytes records a byte string by digest.
func (x *Ctx) EvBytes(label string, b []byte) {
	d := sha256.Sum256(b)
	x.Ev("%s len=%d sha=%x", label, len(b), d[:6])
}

// Shape adds a token to the behaviour shape of the run (event kinds and
// result classes, sizes bucketed by the caller).
func (x *Ctx) Shape(tok string) { x.shape.Write([]byte(tok)); x.shape.Write([]byte{0}) }

// Count adds n to a named counter (probes, faults fired, steps).
func (x *Ctx) Count(name string, n int64) { x.Counters[name] += n }

// Probe counts a reach probe once per occurrence.
func (x *Ctx) Probe(name string) { x.Counters["probe."+name]++ }

// Fault counts an injected fault that actually fired.
func (x *Ctx) Fault(kind string) { x.Counters["fault."+kind]++ }

// Step counts simulated steps of a kind (api, sink, source, fs).
func (x *Ctx) Step(kind string, n int64) { x.Counters["steps."+kind] += n }

// Eval counts n scenario executions (faulted re-runs included).
func (x *Ctx) Eval(n int64) { x.evals += n }

// Nontrivial counts n distinct non-trivial evaluations inside this case; the
// engine guarantees they are distinct within the case.
func (x *Ctx) Nontrivial(n int64) { x.nontriv += n }

// Bucket maps a size to a coarse bucket label for shapes.
func Bucket(n int) string {
	switch {
	case n == 0:
		return "0"
	case n == 1:
		return "1"
	case n < 16:
		return "s"
	case n < 4096:
		return "m"
	case n < 65536:
		return "l"
	}
	return "x"
}

// Spec describes one property check: generator, executor, shrinker, budgets.
type Spec[C any] struct {
	Property    string
	Engine      string
	Level       string // exploration | fault_enumeration
	Rule        string
	Technique   string
	Gen         func(r *Rng, tier string, idx int) *C
	Run         func(c *C, x *Ctx) *Violation
	Shrink      func(c *C) []*C
	Runs        func(tier string) int
	Budget      func(tier string) time.Duration
	RunDeadline time.Duration // per-run wall clock watchdog
	// StallIsViolation: a deadline overrun is a violation of class "stall"
	// (properties that promise the call returns); otherwise it is exit 2.
	StallIsViolation bool
	Assumptions      []string
	Components       map[string][]string
	Exhaustive       []string // names of sub-spaces enumerated completely per case
	// Workers overrides the worker count (0 = NumCPU).
	Workers int
	// Procs: run shards as child processes instead of goroutines (for systems
	// under test with process-global state).
	Procs bool
	// Extra lets a check add fields to coverage after the batch.
	Extra func(cov map[string]any)
	// Pre runs once before the batch (oracle self checks); a non-nil error is
	// exit 2.
	Pre func(tier string) error
	// Post runs after a clean batch (extra phases such as the race-detector
	// half of C14). It may add to coverage and returns an exit code (0, 1, 2)
	// plus lines to print.
	Post func(tier string, seed uint64, cov map[string]any) (int, []string)
}

// Check is the non-generic face of a Spec.
type Check interface {
	ID() string
	Batch(tier string, seed uint64) int
	Replay(path string, quiet bool) int
	Meta() (engine, level, technique string)
}

type checkImpl[C any] struct{ s Spec[C] }

var registry = map[string]Check{}

// Register adds a spec to the registry.
func Register[C any](s Spec[C]) {
	if _, dup := registry[s.Property]; dup {
		panic("duplicate check " + s.Property)
	}
	registry[s.Property] = &checkImpl[C]{s}
}

// Lookup finds a registered check.
func Lookup(id string) Check { return registry[id] }

// IDs lists registered checks in order.
func IDs() []string {
	var ids []string
	for k := range registry {
		ids = append(ids, k)
	}
	sort.Strings(ids)
	return ids
}

func (c *checkImpl[C]) ID() string { return c.s.Property }
func (c *checkImpl[C]) Meta() (string, string, string) {
	return c.s.Engine, c.s.Level, c.s.Technique
}

// VerifDir is the directory holding known-findings.json, evidence/, replays/.
func VerifDir() string {
	if d := os.Getenv("VERIF_DIR"); d != "" {
		return d
	}
	return "/verif"
}

// BinDir is where the check script put the binaries it built.
// Subcommands are extra command-line verbs registered by check packages
// (e.g. "solotask": one C14 task in a fresh process).
var Subcommands = map[string]func(args []string) int{}

func BinDir() string {
	b := os.Getenv("VERIF_BIN")
	if b == "" {
		b = "bin"
	}
	if filepath.IsAbs(b) {
		return b
	}
	return filepath.Join(VerifDir(), b)
}

// ReplayFile is the on-disk form of a failing (or sample) scenario.
type ReplayFile struct {
	Property  string          `json:"property"`
	Engine    string          `json:"engine"`
	Seed      uint64          `json:"seed"`
	RunIndex  int             `json:"run_index"`
	RunSeed   uint64          `json:"run_seed"`
	Minimised bool            `json:"minimised"`
	Tree      string          `json:"tree"`
	Violation *Violation      `json:"violation"`
	Scenario  json.RawMessage `json:"scenario"`
}

func caseDigest(v any) uint64 {
	b, _ := json.Marshal(v)
	h := fnv.New64a()
	h.Write(b)
	return h.Sum64()
}

type found[C any] struct {
	idx  int
	seed uint64
	c    *C
	v    *Violation
}

// safeRun executes Run and converts a harness panic into an infra error.
func (ci *checkImpl[C]) safeRun(c *C, x *Ctx) (v *Violation, infra error) {
	defer func() {
		if r := recover(); r != nil {
			infra = fmt.Errorf("harness panic: %v\n%s", r, debug.Stack())
		}
	}()
	return ci.s.Run(c, x), nil
}

// InfraError marks trouble of the machinery itself (oracle disagreement, build
// problem). Engines panic with it; the runner turns it into exit 2.
type InfraError struct{ Msg string }

func (e InfraError) Error() string { return e.Msg }

// Infra panics with an InfraError.
func Infra(format string, a ...any) { panic(InfraError{fmt.Sprintf(format, a...)}) }

func treeDescribe() string {
	out, err := exec.Command("git", "-C", "/repo", "rev-parse", "--short", "HEAD").Output()
	if err != nil {
		return "unknown"
	}
	s := strings.TrimSpace(string(out))
	st, _ := exec.Command("git", "-C", "/repo", "status", "--porcelain", "--untracked-files=no").Output()
	if len(bytes.TrimSpace(st)) > 0 {
		s += "-dirty"
	}
	return s
}

// Batch runs the check at the given tier and returns the process exit code.
func (ci *checkImpl[C]) Batch(tier string, seed uint64) int {
	s := ci.s
	t0 := time.Now()
	fmt.Printf("check=%s engine=%s tier=%s VERIF_SEED=%d\n", s.Property, s.Engine, tier, seed)
	if s.Pre != nil {
		if err := runPre(s.Pre, tier); err != nil {
			fmt.Printf("INFRA: %v\n", err)
			return 2
		}
	}
	kf, err := LoadFindings()
	if err != nil {
		fmt.Printf("INFRA: known-findings: %v\n", err)
		return 2
	}
	known := map[string]bool{}
	knownSeen := map[string]int{}
	for _, f := range kf.Findings {
		if f.Property != s.Property || f.Status != "known" {
			continue
		}
		known[f.Class+"|"+f.Site] = true
		// re-execute the stored scenario
		if len(f.Scenario) > 0 {
			var c C
			if err := json.Unmarshal(f.Scenario, &c); err != nil {
				fmt.Printf("INFRA: known finding scenario does not parse: %v\n", err)
				return 2
			}
			v, ierr := ci.safeRun(&c, newCtx(false, tier))
			if ierr != nil {
				fmt.Printf("INFRA: %v\n", ierr)
				return 2
			}
			if v != nil && v.Class == f.Class && v.Site == f.Site {
				fmt.Printf("KNOWN-FINDING: property=%s %s [%s/%s]\n", s.Property, f.What, f.Class, f.Site)
				knownSeen[f.Class+"|"+f.Site]++
			} else if v != nil {
				// a different failure on the stored scenario is a new violation;
				// it is picked up below as an ordinary one.
				fmt.Printf("note: stored scenario of known finding now fails differently: %s/%s\n", v.Class, v.Site)
			} else {
				fmt.Printf("note: stored scenario of known finding [%s/%s] no longer fails\n", f.Class, f.Site)
			}
		}
	}

	n := s.Runs(tier)
	if v := os.Getenv("VERIF_RUNS"); v != "" {
		fmt.Sscanf(v, "%d", &n) // used by the determinism self-test
	}
	budget := s.Budget(tier)
	workers := s.Workers
	if workers <= 0 {
		workers = runtime.NumCPU()
	}
	if w := os.Getenv("VERIF_WORKERS"); w != "" {
		fmt.Sscanf(w, "%d", &workers)
	}
	if workers > n {
		workers = n
	}
	if workers < 1 {
		workers = 1
	}

	// child of a process-sharded batch: run one shard single-threaded and
	// hand the result to the parent
	if sh := os.Getenv("VERIF_SHARD"); sh != "" {
		var i, m int
		fmt.Sscanf(sh, "%d/%d", &i, &m)
		r := ci.runShard(tier, seed, i, m, 1, n, budget, known, t0)
		b, _ := json.Marshal(r)
		if err := os.WriteFile(os.Getenv("VERIF_SHARD_OUT"), b, 0o644); err != nil {
			fmt.Printf("INFRA: %v\n", err)
			return 2
		}
		return 0
	}

	var merged *shardResult
	if s.Procs {
		merged = ci.runProcs(tier, seed, workers)
	} else {
		merged = ci.runShard(tier, seed, 0, 1, workers, n, budget, known, t0)
	}
	if merged.Stall != nil {
		f := merged.Stall
		var c C
		json.Unmarshal(f.Case, &c)
		path := ci.writeReplay(seed, f.Idx, f.Seed, &c, f.V, false)
		if s.StallIsViolation {
			fmt.Printf("VIOLATION property=%s replay=%s\n", s.Property, path)
			fmt.Printf("  class=stall detail=%s\n", f.V.Detail)
			return 1
		}
		fmt.Printf("INFRA: watchdog: %s (scenario saved to %s)\n", f.V.Detail, path)
		return 2
	}
	if merged.Infra != "" {
		fmt.Printf("INFRA: %s\n", merged.Infra)
		return 2
	}
	counters := merged.Counters
	shapes := map[uint64]struct{}{}
	for _, k := range merged.Shapes {
		shapes[k] = struct{}{}
	}
	cases := merged.Cases
	var batchDigest [32]byte
	copy(batchDigest[:], merged.Digest)
	evals, completed := merged.Evals, merged.Completed
	samples := merged.Samples
	var founds []found[C]
	for _, f := range merged.Founds {
		c := new(C)
		if err := json.Unmarshal(f.Case, c); err != nil {
			fmt.Printf("INFRA: cannot re-read a failing scenario: %v\n", err)
			return 2
		}
		founds = append(founds, found[C]{f.Idx, f.Seed, c, f.V})
	}

	sort.Slice(founds, func(i, j int) bool { return founds[i].idx < founds[j].idx })
	exit := 0
	unreproduced := 0
	reported := map[string]bool{}
	nviol := 0
	for _, f := range founds {
		k := f.v.key()
		if known[k] {
			knownSeen[k]++
			continue
		}
		if reported[k] {
			continue
		}
		reported[k] = true
		nviol++
		if nviol > 4 {
			continue
		}
		c, v, min := ci.minimise(f.c, f.v)
		path := ci.writeReplay(seed, f.idx, f.seed, c, v, min)
		// fresh-process confirmation
		if !confirmReplay(path) {
			path = ci.writeReplay(seed, f.idx, f.seed, f.c, f.v, false)
			if !confirmReplay(path) {
				fmt.Printf("note: violation %s/%s of run %d does not reproduce in a fresh process (state carried over from earlier runs of this process, or harness nondeterminism); scenario at %s\n", f.v.Class, f.v.Site, f.idx, path)
				unreproduced++
				continue
			}
		}
		fmt.Printf("VIOLATION property=%s replay=%s\n", s.Property, path)
		fmt.Printf("  class=%s site=%s detail=%s\n", v.Class, v.Site, v.Detail)
		exit = 1
	}

	if exit == 0 && unreproduced > 0 {
		// nothing replayable to report: trouble of the machinery, not a verdict
		fmt.Printf("INFRA: %d violation(s) seen in the batch could not be reproduced in a fresh process\n", unreproduced)
		return 2
	}
	var distinct int64
	for _, v := range cases {
		distinct += v
	}
	wall := time.Since(t0).Seconds()
	cov := map[string]any{
		"evaluations":         evals,
		"distinct_nontrivial": distinct,
		"rule":                s.Rule,
		"samples":             samples,
		"runs_completed":      completed,
		"runs_planned":        n,
		"runs_per_hour":       int64(float64(completed) / wall * 3600),
		"seeds":               map[string]any{"root": seed, "run_seed": "Mix(root, tag(property), index)", "index_range": []int64{0, completed - 1}},
		"distinct_behaviours": len(shapes),
		"distinct_cases":      len(cases),
		"batch_digest":        fmt.Sprintf("%x", batchDigest[:8]),
		"workers":             workers,
		"components":          s.Components,
		"known_findings_seen": knownSeen,
		"simulated_time":      "no clock in the system under test; coverage is counted in simulated steps (see simulated_steps)",
	}
	group := func(prefix string) map[string]int64 {
		m := map[string]int64{}
		for k, v := range counters {
			if strings.HasPrefix(k, prefix) {
				m[strings.TrimPrefix(k, prefix)] = v
			}
		}
		return m
	}
	cov["simulated_steps"] = group("steps.")
	cov["faults_fired"] = group("fault.")
	cov["probes"] = group("probe.")
	other := map[string]int64{}
	for k, v := range counters {
		if !strings.HasPrefix(k, "steps.") && !strings.HasPrefix(k, "fault.") && !strings.HasPrefix(k, "probe.") {
			other[k] = v
		}
	}
	cov["counters"] = other
	if len(s.Exhaustive) > 0 {
		cov["exhaustive_subspaces"] = s.Exhaustive
	}
	if s.Extra != nil {
		s.Extra(cov)
	}
	if s.Post != nil && exit == 0 {
		code, lines := s.Post(tier, seed, cov)
		for _, l := range lines {
			fmt.Println(l)
		}
		if code != 0 {
			exit = code
			if code == 1 {
				nviol++
			}
		}
	}
	ev := map[string]any{
		"property_id": s.Property,
		"tier":        tier,
		"seed":        int64(seed & 0x7fffffffffffffff),
		"level":       s.Level,
		"coverage":    cov,
		"assumptions": s.Assumptions,
		"wall_s":      wall,
		"violations":  nviol,
	}
	if err := writeEvidence(s.Property, ev); err != nil {
		fmt.Printf("INFRA: evidence: %v\n", err)
		return 2
	}
	fmt.Printf("done: runs=%d/%d evaluations=%d distinct_nontrivial=%d behaviours=%d violations=%d known=%d wall=%.1fs digest=%x\n",
		completed, n, evals, distinct, len(shapes), nviol, len(knownSeen), wall, batchDigest[:8])
	if exit == 0 && completed == 0 {
		fmt.Println("INFRA: no run completed")
		return 2
	}
	return exit
}

type foundJSON struct {
	Idx  int             `json:"idx"`
	Seed uint64          `json:"seed"`
	Case json.RawMessage `json:"case"`
	V    *Violation      `json:"v"`
}

// shardResult is what one shard (goroutine pool or child process) reports.
type shardResult struct {
	Counters  map[string]int64  `json:"counters"`
	Shapes    []uint64          `json:"shapes"`
	Cases     map[uint64]int64  `json:"cases"`
	Digest    []byte            `json:"digest"`
	Evals     int64             `json:"evals"`
	Completed int64             `json:"completed"`
	Founds    []foundJSON       `json:"founds"`
	Samples   []json.RawMessage `json:"samples"`
	Infra     string            `json:"infra,omitempty"`
	Stall     *foundJSON        `json:"stall,omitempty"`
}

// runProcs runs the batch as child processes (one shard each). It is used by
// engines whose system under test has process-global state (gxz's flag set,
// logger and simulated OS), so that one process runs one simulation at a time.
func (ci *checkImpl[C]) runProcs(tier string, seed uint64, procs int) *shardResult {
	self, err := os.Executable()
	if err != nil {
		return &shardResult{Infra: err.Error()}
	}
	dir, err := os.MkdirTemp("", "verif-shards-")
	if err != nil {
		return &shardResult{Infra: err.Error()}
	}
	defer os.RemoveAll(dir)
	type out struct {
		r   *shardResult
		err error
	}
	res := make([]out, procs)
	var wg sync.WaitGroup
	for i := 0; i < procs; i++ {
		wg.Add(1)
		go func(i int) {
			defer wg.Done()
			of := filepath.Join(dir, fmt.Sprintf("shard-%d.json", i))
			cmd := exec.Command(self, "check", ci.s.Property, "--tier", tier, "--seed", fmt.Sprint(seed))
			cmd.Env = append(os.Environ(), fmt.Sprintf("VERIF_SHARD=%d/%d", i, procs), "VERIF_SHARD_OUT="+of)
			var buf bytes.Buffer
			cmd.Stdout, cmd.Stderr = &buf, &buf
			if err := cmd.Run(); err != nil {
				res[i].err = fmt.Errorf("shard %d: %v\n%s", i, err, buf.String())
				return
			}
			b, err := os.ReadFile(of)
			if err != nil {
				res[i].err = fmt.Errorf("shard %d: %v\n%s", i, err, buf.String())
				return
			}
			r := &shardResult{}
			if err := json.Unmarshal(b, r); err != nil {
				res[i].err = err
				return
			}
			res[i].r = r
		}(i)
	}
	wg.Wait()
	m := &shardResult{Counters: map[string]int64{}, Cases: map[uint64]int64{}, Digest: make([]byte, 32)}
	seen := map[uint64]struct{}{}
	for i := range res {
		if res[i].err != nil {
			m.Infra = res[i].err.Error()
			return m
		}
		r := res[i].r
		if r.Infra != "" && m.Infra == "" {
			m.Infra = r.Infra
		}
		if r.Stall != nil && m.Stall == nil {
			m.Stall = r.Stall
		}
		for k, v := range r.Counters {
			m.Counters[k] += v
		}
		for _, k := range r.Shapes {
			if _, ok := seen[k]; !ok {
				seen[k] = struct{}{}
				m.Shapes = append(m.Shapes, k)
			}
		}
		for k, v := range r.Cases {
			if old, ok := m.Cases[k]; !ok || v > old {
				m.Cases[k] = v
			}
		}
		for j := range m.Digest {
			m.Digest[j] ^= r.Digest[j]
		}
		m.Evals += r.Evals
		m.Completed += r.Completed
		m.Founds = append(m.Founds, r.Founds...)
		m.Samples = append(m.Samples, r.Samples...)
	}
	if len(m.Samples) > 3 {
		m.Samples = m.Samples[:3]
	}
	return m
}

// runShard executes the runs idx with idx %% nshards == shard on a pool of
// worker goroutines.
func (ci *checkImpl[C]) runShard(tier string, seed uint64, shard, nshards, workers, n int, budget time.Duration, known map[string]bool, t0 time.Time) *shardResult {
	s := ci.s
	deadline := s.RunDeadline
	if deadline == 0 {
		deadline = 60 * time.Second
	}
	if tier == "thorough" {
		deadline *= 4
	}
	slowMS := 0
	if v := os.Getenv("VERIF_SLOW"); v != "" {
		fmt.Sscanf(v, "%d", &slowMS)
	}
	out := &shardResult{Counters: map[string]int64{}, Cases: map[uint64]int64{}, Digest: make([]byte, 32)}
	shapes := map[uint64]struct{}{}
	var next int64 = -1
	var stop int32
	var mu sync.Mutex
	type slot struct {
		start atomic.Int64
		idx   atomic.Int64
		c     atomic.Pointer[C]
	}
	slots := make([]slot, workers)
	var wg sync.WaitGroup
	for w := 0; w < workers; w++ {
		wg.Add(1)
		go func(w int) {
			defer wg.Done()
			lc := map[string]int64{}
			ls := map[uint64]struct{}{}
			lcases := map[uint64]int64{}
			var ld [32]byte
			var le, ldone int64
			for atomic.LoadInt32(&stop) == 0 {
				idx := int(atomic.AddInt64(&next, 1))*nshards + shard
				if idx >= n {
					break
				}
				if time.Since(t0) > budget {
					break
				}
				rs := Mix(seed, Tag(s.Property), uint64(idx))
				c := s.Gen(NewRng(rs), tier, idx)
				x := newCtx(false, tier)
				slots[w].idx.Store(int64(idx))
				slots[w].c.Store(c)
				slots[w].start.Store(time.Now().UnixNano())
				tRun := time.Now()
				v, ierr := ci.safeRun(c, x)
				slots[w].start.Store(0)
				if slowMS > 0 && time.Since(tRun) > time.Duration(slowMS)*time.Millisecond {
					b, _ := json.Marshal(c)
					if len(b) > 700 {
						b = b[:700]
					}
					fmt.Fprintf(os.Stderr, "slow run %d: %v evals=%d %s\n", idx, time.Since(tRun).Round(time.Millisecond), x.evals, b)
				}
				if ierr != nil {
					mu.Lock()
					if out.Infra == "" {
						b, _ := json.Marshal(c)
						out.Infra = fmt.Sprintf("run %d: %v\nscenario: %s", idx, ierr, b)
					}
					mu.Unlock()
					atomic.StoreInt32(&stop, 1)
					break
				}
				for k, val := range x.Counters {
					lc[k] += val
				}
				ls[x.shape.Sum64()] = struct{}{}
				ev := x.evals
				if ev == 0 {
					ev = 1
				}
				le += ev
				ldone++
				cd := caseDigest(c)
				if x.nontriv > 0 {
					if old, ok := lcases[cd]; !ok || x.nontriv > old {
						lcases[cd] = x.nontriv
					}
				}
				var ib [8]byte
				binary.LittleEndian.PutUint64(ib[:], uint64(idx))
				hh := sha256.New()
				hh.Write(ib[:])
				hh.Write(x.h.Sum(nil))
				if v != nil {
					hh.Write([]byte(v.key()))
				}
				sum := hh.Sum(nil)
				for i := range ld {
					ld[i] ^= sum[i]
				}
				if idx < 3 || v != nil {
					mu.Lock()
					b, _ := json.Marshal(c)
					if idx < 3 {
						out.Samples = append(out.Samples, b)
					}
					if v != nil {
						out.Founds = append(out.Founds, foundJSON{idx, rs, b, v})
						if !known[v.key()] {
							atomic.StoreInt32(&stop, 1)
						}
					}
					mu.Unlock()
				}
			}
			mu.Lock()
			for k, val := range lc {
				out.Counters[k] += val
			}
			for k := range ls {
				shapes[k] = struct{}{}
			}
			for k, val := range lcases {
				if old, ok := out.Cases[k]; !ok || val > old {
					out.Cases[k] = val
				}
			}
			for i := range out.Digest {
				out.Digest[i] ^= ld[i]
			}
			out.Evals += le
			out.Completed += ldone
			mu.Unlock()
		}(w)
	}
	done := make(chan struct{})
	go func() { wg.Wait(); close(done) }()
	tick := time.NewTicker(500 * time.Millisecond)
	defer tick.Stop()
wait:
	for {
		select {
		case <-done:
			break wait
		case <-tick.C:
			now := time.Now().UnixNano()
			for w := range slots {
				st := slots[w].start.Load()
				if st != 0 && time.Duration(now-st) > deadline {
					c := slots[w].c.Load()
					idx := int(slots[w].idx.Load())
					b, _ := json.Marshal(c)
					v := Viol("stall", "run-deadline", "run %d exceeded the per-run deadline of %v", idx, deadline)
					mu.Lock()
					out.Stall = &foundJSON{idx, Mix(seed, Tag(s.Property), uint64(idx)), b, v}
					r := *out
					mu.Unlock()
					return &r
				}
			}
		}
	}
	for k := range shapes {
		out.Shapes = append(out.Shapes, k)
	}
	return out
}

func runPre(pre func(string) error, tier string) (err error) {
	defer func() {
		if r := recover(); r != nil {
			err = fmt.Errorf("pre-check panic: %v", r)
		}
	}()
	return pre(tier)
}

func writeEvidence(id string, ev map[string]any) error {
	dir := filepath.Join(VerifDir(), "evidence")
	if err := os.MkdirAll(dir, 0o755); err != nil {
		return err
	}
	b, err := json.MarshalIndent(ev, "", " ")
	if err != nil {
		return err
	}
	return os.WriteFile(filepath.Join(dir, id+".json"+os.Getenv("VERIF_EVIDENCE_SUFFIX")), append(b, '\n'), 0o644)
}

func (ci *checkImpl[C]) writeReplay(seed uint64, idx int, rs uint64, c *C, v *Violation, min bool) string {
	dir := filepath.Join(VerifDir(), "replays")
	os.MkdirAll(dir, 0o755)
	sc, _ := json.Marshal(c)
	rf := ReplayFile{Property: ci.s.Property, Engine: ci.s.Engine, Seed: seed, RunIndex: idx, RunSeed: rs,
		Minimised: min, Tree: treeDescribe(), Violation: v, Scenario: sc}
	b, _ := json.MarshalIndent(rf, "", " ")
	tag := "raw"
	if min {
		tag = "min"
	}
	name := fmt.Sprintf("%s-%s-%s-seed%d-run%d-%s.json", ci.s.Property, sanitize(v.Class), sanitize(v.Site), seed, idx, tag)
	path := filepath.Join(dir, name)
	os.WriteFile(path, append(b, '\n'), 0o644)
	return path
}

func sanitize(s string) string {
	var b strings.Builder
	for _, r := range s {
		if (r >= 'a' && r <= 'z') || (r >= 'A' && r <= 'Z') || (r >= '0' && r <= '9') || r == '-' || r == '_' {
			b.WriteRune(r)
		} else {
			b.WriteByte('_')
		}
	}
	if b.Len() > 60 {
		return b.String()[:60]
	}
	return b.String()
}

func confirmReplay(path string) bool {
	self, err := os.Executable()
	if err != nil {
		return false
	}
	cmd := exec.Command(self, "replay", "--quiet", path)
	cmd.Env = os.Environ()
	done := make(chan error, 1)
	if err := cmd.Start(); err != nil {
		return false
	}
	go func() { done <- cmd.Wait() }()
	select {
	case err := <-done:
		if ee, ok := err.(*exec.ExitError); ok {
			return ee.ExitCode() == 1
		}
		return false
	case <-time.After(10 * time.Minute):
		cmd.Process.Kill()
		return false
	}
}

// minimise shrinks the case while the same (class, site) persists.
func (ci *checkImpl[C]) minimise(c *C, v *Violation) (*C, *Violation, bool) {
	budget := 2000
	if ci.s.Shrink == nil {
		return c, v, false
	}
	changed := false
	try := func(cand *C) *Violation {
		budget--
		x := newCtx(false, "quick")
		nv, ierr := ci.safeRun(cand, x)
		if ierr != nil || nv == nil {
			return nil
		}
		if nv.Class == v.Class && nv.Site == v.Site {
			return nv
		}
		return nil
	}
	if v.Narrow != nil {
		if nc, ok := v.Narrow.(*C); ok {
			if nv := try(nc); nv != nil {
				c, v, changed = nc, nv, true
			}
		}
	}
	t0 := time.Now()
	for progress := true; progress && budget > 0 && time.Since(t0) < 5*time.Minute; {
		progress = false
		before := caseDigest(c)
		for _, cand := range ci.s.Shrink(c) {
			if budget <= 0 {
				break
			}
			if caseDigest(cand) == before {
				continue
			}
			if nv := try(cand); nv != nil {
				c, v, progress, changed = cand, nv, true, true
				break
			}
		}
	}
	return c, v, changed
}

// Replay executes a replay file. Exit 1: the recorded violation reproduces;
// 0: no violation; 3: a different violation; 2: trouble.
func (ci *checkImpl[C]) Replay(path string, quiet bool) int {
	b, err := os.ReadFile(path)
	if err != nil {
		fmt.Printf("INFRA: %v\n", err)
		return 2
	}
	var rf ReplayFile
	if err := json.Unmarshal(b, &rf); err != nil {
		fmt.Printf("INFRA: %v\n", err)
		return 2
	}
	var c C
	if err := json.Unmarshal(rf.Scenario, &c); err != nil {
		fmt.Printf("INFRA: scenario: %v\n", err)
		return 2
	}
	x := newCtx(!quiet, "quick")
	type res struct {
		v   *Violation
		err error
	}
	ch := make(chan res, 1)
	go func() { v, e := ci.safeRun(&c, x); ch <- res{v, e} }()
	deadline := ci.s.RunDeadline
	if deadline == 0 {
		deadline = 60 * time.Second
	}
	var r res
	select {
	case r = <-ch:
	case <-time.After(deadline * 4):
		r.v = Viol("stall", "run-deadline", "replay exceeded %v", deadline*4)
	}
	if r.err != nil {
		fmt.Printf("INFRA: %v\n", r.err)
		return 2
	}
	if !quiet {
		fmt.Printf("replay %s property=%s engine=%s run_seed=%d\n", path, rf.Property, rf.Engine, rf.RunSeed)
		for _, l := range x.Log {
			fmt.Println("  " + l)
		}
	}
	if r.v == nil {
		fmt.Println("replay: no violation")
		return 0
	}
	fmt.Printf("replay: violation class=%s site=%s detail=%s\n", r.v.Class, r.v.Site, r.v.Detail)
	if rf.Violation != nil && (rf.Violation.Class != r.v.Class || rf.Violation.Site != r.v.Site) {
		fmt.Printf("replay: differs from recorded %s/%s\n", rf.Violation.Class, rf.Violation.Site)
		return 3
	}
	return 1
}
