// Package simterm replaces internal/term in the simulated gxz - but not the
// code of internal/term: the unmodified IsTerminal of the repository (Real)
// is asked about a real kernel object of the kind the scenario puts behind the
// simulated standard output (a pipe, /dev/null, a regular file, a pseudo
// terminal). Only the mapping from the simulated descriptor to that object is
// simulated.
package simterm

import (
	"os"
	"sync"
	"syscall"
	"unsafe"

	"verif/sim/simos"
)

// Real is the repository's term.IsTerminal, installed by the entry file of the
// scratch copy. Without it the scenario's kind alone decides.
var Real func(fd uintptr) bool

var (
	mu    sync.Mutex
	files = map[string]*os.File{}
)

// object returns a real open file of the given kind (created once per process).
func object(kind string) *os.File {
	mu.Lock()
	defer mu.Unlock()
	if f := files[kind]; f != nil {
		return f
	}
	var f *os.File
	switch kind {
	case "devnull":
		f, _ = os.OpenFile(os.DevNull, os.O_WRONLY, 0)
	case "file":
		f, _ = os.CreateTemp("", "verif-stdout-")
		if f != nil {
			os.Remove(f.Name())
		}
	case "tty":
		f = openPTY()
	default: // pipe
		_, f, _ = os.Pipe()
	}
	files[kind] = f
	return f
}

// openPTY opens the slave side of a fresh pseudo terminal.
func openPTY() *os.File {
	m, err := os.OpenFile("/dev/ptmx", os.O_RDWR, 0)
	if err != nil {
		return nil
	}
	var unlock int32
	if _, _, e := syscall.Syscall(syscall.SYS_IOCTL, m.Fd(), syscall.TIOCSPTLCK, uintptr(unsafe.Pointer(&unlock))); e != 0 {
		return nil
	}
	var n uint32
	if _, _, e := syscall.Syscall(syscall.SYS_IOCTL, m.Fd(), syscall.TIOCGPTN, uintptr(unsafe.Pointer(&n))); e != 0 {
		return nil
	}
	s, err := os.OpenFile("/dev/pts/"+itoa(int(n)), os.O_RDWR|syscall.O_NOCTTY, 0)
	if err != nil {
		return nil
	}
	files["tty-master"] = m // keep the master open
	return s
}

func itoa(n int) string {
	if n == 0 {
		return "0"
	}
	s := ""
	for ; n > 0; n /= 10 {
		s = string(rune('0'+n%10)) + s
	}
	return s
}

// IsTerminal answers for a descriptor of the simulated process.
func IsTerminal(fd uintptr) bool {
	kind := simos.StdKind(fd)
	if Real != nil {
		if f := object(kind); f != nil {
			return Real(f.Fd())
		}
	}
	return kind == "tty"
}

// SelfTest checks the real code against the real objects: only the pseudo
// terminal is a terminal. It returns "" or what is wrong.
func SelfTest() string {
	if Real == nil {
		return "the repository's term.IsTerminal is not installed"
	}
	for _, k := range []string{"pipe", "devnull", "file"} {
		if f := object(k); f == nil {
			return "cannot create a " + k
		} else if Real(f.Fd()) {
			return "term.IsTerminal says a " + k + " is a terminal"
		}
	}
	if f := object("tty"); f != nil && !Real(f.Fd()) {
		return "term.IsTerminal says a pseudo terminal is no terminal"
	}
	return ""
}
