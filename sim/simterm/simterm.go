// Package simterm replaces internal/term in the simulated gxz.
package simterm

import "verif/sim/simos"

// IsTerminal reports whether the simulated stdout is a terminal.
func IsTerminal(fd uintptr) bool { return simos.IsTTY(fd) }
