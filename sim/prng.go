// Package sim holds the simulation core: the single seeded source of choices,
// payload recipes, the batch runner, replay files, shrinking, evidence and
// known-findings handling.
package sim

// Rng is a SplitMix64 stream. It is the only source of choices in a run.
type Rng struct{ s uint64 }

// NewRng returns a stream seeded with seed.
func NewRng(seed uint64) *Rng { return &Rng{s: seed} }

func mix64(z uint64) uint64 {
	z = (z ^ (z >> 30)) * 0xbf58476d1ce4e5b9
	z = (z ^ (z >> 27)) * 0x94d049bb133111eb
	return z ^ (z >> 31)
}

// Mix derives a new seed from a root and a list of tags.
func Mix(root uint64, parts ...uint64) uint64 {
	z := mix64(root + 0x9e3779b97f4a7c15)
	for _, p := range parts {
		z = mix64(z ^ mix64(p+0x9e3779b97f4a7c15))
	}
	return z
}

// Tag converts a string to a tag usable by Mix.
func Tag(s string) uint64 {
	var h uint64 = 1469598103934665603
	for i := 0; i < len(s); i++ {
		h ^= uint64(s[i])
		h *= 1099511628211
	}
	return h
}

// Uint64 returns the next value of the stream.
func (r *Rng) Uint64() uint64 {
	r.s += 0x9e3779b97f4a7c15
	return mix64(r.s)
}

// Intn returns a value in [0,n). n must be positive.
func (r *Rng) Intn(n int) int {
	if n <= 1 {
		return 0
	}
	return int(r.Uint64() % uint64(n))
}

// Range returns a value in [lo,hi].
func (r *Rng) Range(lo, hi int) int {
	if hi <= lo {
		return lo
	}
	return lo + r.Intn(hi-lo+1)
}

// Chance is true with probability num/den.
func (r *Rng) Chance(num, den int) bool { return r.Intn(den) < num }

// Bool is a fair coin.
func (r *Rng) Bool() bool { return r.Uint64()&1 == 1 }

// Bytes returns n pseudo-random bytes.
func (r *Rng) Bytes(n int) []byte {
	p := make([]byte, n)
	i := 0
	for i+8 <= n {
		v := r.Uint64()
		p[i], p[i+1], p[i+2], p[i+3] = byte(v), byte(v>>8), byte(v>>16), byte(v>>24)
		p[i+4], p[i+5], p[i+6], p[i+7] = byte(v>>32), byte(v>>40), byte(v>>48), byte(v>>56)
		i += 8
	}
	if i < n {
		v := r.Uint64()
		for ; i < n; i++ {
			p[i] = byte(v)
			v >>= 8
		}
	}
	return p
}

// Pick returns one element of xs.
func Pick[T any](r *Rng, xs []T) T { return xs[r.Intn(len(xs))] }

// Weighted returns an index drawn with the given weights.
func (r *Rng) Weighted(w []int) int {
	t := 0
	for _, x := range w {
		t += x
	}
	v := r.Intn(t)
	for i, x := range w {
		if v < x {
			return i
		}
		v -= x
	}
	return len(w) - 1
}
