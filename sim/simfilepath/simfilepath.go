// Package simfilepath stands in for path/filepath in the simulated gxz: the
// functions that only compute on strings are the real ones; the functions that
// look at the file system look at the simulated one. A function that is
// missing here makes the simulated gxz fail to build (exit 2) - never silently
// reach the real file system.
package simfilepath

import (
	"path/filepath"
	"syscall"

	"verif/sim/simos"
)

const (
	Separator     = filepath.Separator
	ListSeparator = filepath.ListSeparator
)

var (
	ErrBadPattern = filepath.ErrBadPattern
	SkipDir       = filepath.SkipDir
)

func Base(p string) string              { return filepath.Base(p) }
func Clean(p string) string             { return filepath.Clean(p) }
func Dir(p string) string               { return filepath.Dir(p) }
func Ext(p string) string               { return filepath.Ext(p) }
func FromSlash(p string) string         { return filepath.FromSlash(p) }
func ToSlash(p string) string           { return filepath.ToSlash(p) }
func IsAbs(p string) bool               { return filepath.IsAbs(p) }
func Join(e ...string) string           { return filepath.Join(e...) }
func Split(p string) (string, string)   { return filepath.Split(p) }
func SplitList(p string) []string       { return filepath.SplitList(p) }
func VolumeName(p string) string        { return filepath.VolumeName(p) }
func Match(pat, n string) (bool, error) { return filepath.Match(pat, n) }
func Rel(b, t string) (string, error)   { return filepath.Rel(b, t) }

// Abs: the simulated process runs in the root of its world.
func Abs(p string) (string, error) {
	if filepath.IsAbs(p) {
		return filepath.Clean(p), nil
	}
	return filepath.Join("/", p), nil
}

// EvalSymlinks resolves symbolic links in the simulated file system (links of
// the scenarios sit in the last component only).
func EvalSymlinks(p string) (string, error) {
	for i := 0; i < 40; i++ {
		fi, err := simos.Lstat(p)
		if err != nil {
			return "", err
		}
		if fi.Mode()&simos.ModeSymlink == 0 {
			return filepath.Clean(p), nil
		}
		t, err := simos.Readlink(p)
		if err != nil {
			return "", err
		}
		if !filepath.IsAbs(t) {
			t = filepath.Join(filepath.Dir(p), t)
		}
		p = t
	}
	return "", &simos.PathError{Op: "lstat", Path: p, Err: syscall.ELOOP}
}
