package cli

import "encoding/json"

func peekProperty(b []byte) string {
	var v struct {
		Property string `json:"property"`
	}
	json.Unmarshal(b, &v)
	return v.Property
}
