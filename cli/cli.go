// Package cli is the command line of the deterministic-simulation checks:
//
//	verif check <id> [--tier quick|thorough] [--seed N]
//	verif replay [--quiet] <file>
//	verif list
package cli

import (
	"fmt"
	"os"
	"strconv"

	"verif/sim"
)

func usage() {
	fmt.Fprintln(os.Stderr, "usage: verif check <id> [--tier quick|thorough] [--seed N] | verif replay [--quiet] <file> | verif list")
	os.Exit(2)
}

// Run executes the command line (os.Args) and exits.
func Run() {
	if len(os.Args) < 2 {
		usage()
	}
	switch os.Args[1] {
	case "list":
		for _, id := range sim.IDs() {
			e, l, _ := sim.Lookup(id).Meta()
			fmt.Printf("%s engine=%s level=%s\n", id, e, l)
		}
	case "check":
		if len(os.Args) < 3 {
			usage()
		}
		id := os.Args[2]
		tier := os.Getenv("VERIF_TIER")
		if tier == "" {
			tier = "quick"
		}
		var seed uint64 = 20260927
		seedSet := false
		if s := os.Getenv("VERIF_SEED"); s != "" {
			if v, err := strconv.ParseUint(s, 10, 64); err == nil {
				seed, seedSet = v, true
			} else if v, err := strconv.ParseInt(s, 10, 64); err == nil {
				seed, seedSet = uint64(v), true
			}
		}
		for i := 3; i < len(os.Args); i++ {
			switch os.Args[i] {
			case "--tier":
				i++
				tier = os.Args[i]
			case "--seed":
				i++
				v, err := strconv.ParseUint(os.Args[i], 10, 64)
				if err != nil {
					usage()
				}
				seed, seedSet = v, true
			default:
				usage()
			}
		}
		_ = seedSet
		if tier != "quick" && tier != "thorough" {
			usage()
		}
		c := sim.Lookup(id)
		if c == nil {
			fmt.Fprintf(os.Stderr, "unknown check %q\n", id)
			os.Exit(2)
		}
		os.Exit(c.Batch(tier, seed))
	case "replay":
		quiet := false
		args := os.Args[2:]
		if len(args) > 0 && args[0] == "--quiet" {
			quiet = true
			args = args[1:]
		}
		if len(args) != 1 {
			usage()
		}
		b, err := os.ReadFile(args[0])
		if err != nil {
			fmt.Fprintln(os.Stderr, err)
			os.Exit(2)
		}
		id := peekProperty(b)
		c := sim.Lookup(id)
		if c == nil {
			fmt.Fprintf(os.Stderr, "replay file names unknown property %q\n", id)
			os.Exit(2)
		}
		os.Exit(c.Replay(args[0], quiet))
	default:
		if f := sim.Subcommands[os.Args[1]]; f != nil {
			os.Exit(f(os.Args[2:]))
		}
		usage()
	}
}
