// Command mutgen lists single-token mutations of the repository's non-test Go
// sources as JSON lines {file, start, end, repl, desc}: comparison and
// arithmetic operator swaps, boolean operator swaps, integer literals +-1,
// negated if conditions, and error-return blocks emptied. It is the generator
// of tools/mutsweep.py, which measures which of the mutants that survive the
// repository's own tests are caught by the checks.
// Usage: mutgen <repo> <dir>...
package main

import (
	"encoding/json"
	"fmt"
	"go/ast"
	"go/parser"
	"go/token"
	"os"
	"path/filepath"
	"sort"
	"strconv"
	"strings"
)

type mut struct {
	File  string `json:"file"`
	Start int    `json:"start"`
	End   int    `json:"end"`
	Repl  string `json:"repl"`
	Desc  string `json:"desc"`
	Line  int    `json:"line"`
	Func  string `json:"func"`
}

var swaps = map[token.Token][]string{
	token.LSS: {"<="}, token.LEQ: {"<"}, token.GTR: {">="}, token.GEQ: {">"},
	token.EQL: {"!="}, token.NEQ: {"=="},
	token.ADD: {"-"}, token.SUB: {"+"},
	token.LAND: {"||"}, token.LOR: {"&&"},
	token.SHL: {">>"}, token.SHR: {"<<"},
	token.AND: {"|"}, token.OR: {"&"},
}

func main() {
	if len(os.Args) < 3 {
		fmt.Fprintln(os.Stderr, "usage: mutgen <repo> <dir>...")
		os.Exit(2)
	}
	repo := os.Args[1]
	enc := json.NewEncoder(os.Stdout)
	for _, dir := range os.Args[2:] {
		ents, err := os.ReadDir(filepath.Join(repo, dir))
		if err != nil {
			fmt.Fprintln(os.Stderr, err)
			os.Exit(2)
		}
		var names []string
		for _, e := range ents {
			n := e.Name()
			if strings.HasSuffix(n, ".go") && !strings.HasSuffix(n, "_test.go") && !strings.Contains(n, "_windows") && !strings.Contains(n, "_bsd") {
				names = append(names, n)
			}
		}
		sort.Strings(names)
		for _, n := range names {
			rel := filepath.Join(dir, n)
			src, err := os.ReadFile(filepath.Join(repo, rel))
			if err != nil {
				continue
			}
			fset := token.NewFileSet()
			f, err := parser.ParseFile(fset, rel, src, 0)
			if err != nil {
				continue
			}
			var muts []mut
			fn := ""
			add := func(p, e token.Pos, repl, desc string) {
				pos := fset.Position(p)
				muts = append(muts, mut{File: rel, Start: pos.Offset, End: fset.Position(e).Offset, Repl: repl, Desc: desc, Line: pos.Line, Func: fn})
			}
			ast.Inspect(f, func(nd ast.Node) bool {
				switch x := nd.(type) {
				case *ast.FuncDecl:
					fn = x.Name.Name
					if x.Recv != nil && len(x.Recv.List) > 0 {
						fn = strings.TrimPrefix(string(src[fset.Position(x.Recv.List[0].Type.Pos()).Offset:fset.Position(x.Recv.List[0].Type.End()).Offset]), "*") + "." + fn
					}
					if x.Name.Name == "String" || x.Name.Name == "Error" || strings.HasPrefix(x.Name.Name, "Example") {
						return false
					}
				case *ast.GenDecl:
					if x.Tok == token.IMPORT {
						return false
					}
				case *ast.BinaryExpr:
					for _, r := range swaps[x.Op] {
						if x.Op == token.ADD {
							// string concatenation is not arithmetic
							if bl, ok := x.X.(*ast.BasicLit); ok && bl.Kind == token.STRING {
								continue
							}
							if bl, ok := x.Y.(*ast.BasicLit); ok && bl.Kind == token.STRING {
								continue
							}
						}
						add(x.OpPos, x.OpPos+token.Pos(len(x.Op.String())), r, fmt.Sprintf("%s -> %s", x.Op, r))
					}
				case *ast.BasicLit:
					if x.Kind == token.INT {
						if v, err := strconv.ParseInt(x.Value, 0, 64); err == nil && v >= 0 && v < 1<<31 {
							add(x.Pos(), x.End(), strconv.FormatInt(v+1, 10), fmt.Sprintf("%s -> %d", x.Value, v+1))
							if v > 0 {
								add(x.Pos(), x.End(), strconv.FormatInt(v-1, 10), fmt.Sprintf("%s -> %d", x.Value, v-1))
							}
						}
					}
				case *ast.IfStmt:
					if x.Cond != nil {
						c := string(src[fset.Position(x.Cond.Pos()).Offset:fset.Position(x.Cond.End()).Offset])
						add(x.Cond.Pos(), x.Cond.End(), "!("+c+")", "if condition negated")
						// an error-return block emptied: if err != nil { return ... }
						if be, ok := x.Cond.(*ast.BinaryExpr); ok && be.Op == token.NEQ && x.Else == nil && len(x.Body.List) == 1 {
							if id, ok := be.Y.(*ast.Ident); ok && id.Name == "nil" {
								if _, ok := x.Body.List[0].(*ast.ReturnStmt); ok {
									add(x.Body.Lbrace+1, x.Body.Rbrace, " ", "early return on "+strings.TrimSpace(c)+" removed")
								}
							}
						}
					}
				case *ast.IncDecStmt:
					r := "--"
					if x.Tok == token.DEC {
						r = "++"
					}
					add(x.TokPos, x.TokPos+2, r, x.Tok.String()+" -> "+r)
				}
				return true
			})
			for _, m := range muts {
				enc.Encode(m)
			}
		}
	}
}
