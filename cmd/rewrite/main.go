// Command rewrite redirects the os, os/signal, path/filepath and internal/term imports of a
// scratch copy of cmd/gxz, internal/gflag and internal/xlog to the simulated
// packages. Usage: rewrite <copy-of-repo>
package main

import (
	"bytes"
	"encoding/json"
	"fmt"
	"go/ast"
	"go/format"
	"go/parser"
	"go/token"
	"os"
	"path/filepath"
	"strconv"
	"strings"
)

var redirect = map[string][2]string{
	"os":                                     {"os", "verif/sim/simos"},
	"os/signal":                              {"signal", "verif/sim/simsignal"},
	"path/filepath":                          {"filepath", "verif/sim/simfilepath"},
	"github.com/ulikunitz/xz/internal/term":  {"term", "verif/sim/simterm"},
	"github.com/ulikunitz/xz/internal/gflag": {"gflag", "verif/gxzsim/gxzcopy/gflag"},
	"github.com/ulikunitz/xz/internal/xlog":  {"xlog", "verif/gxzsim/gxzcopy/xlog"},
}

func main() {
	if len(os.Args) != 2 {
		fmt.Fprintln(os.Stderr, "usage: rewrite <repo-copy>")
		os.Exit(2)
	}
	root := os.Args[1]
	n := 0
	closes := 0
	for _, dir := range []string{"cmd/gxz", "internal/gflag", "internal/xlog"} {
		ents, err := os.ReadDir(filepath.Join(root, dir))
		if err != nil {
			fmt.Fprintln(os.Stderr, err)
			os.Exit(2)
		}
		for _, e := range ents {
			name := e.Name()
			if !strings.HasSuffix(name, ".go") || strings.HasSuffix(name, "_test.go") || name == "zz_verif_entry.go" {
				continue
			}
			p := filepath.Join(root, dir, name)
			fset := token.NewFileSet()
			f, err := parser.ParseFile(fset, p, nil, parser.ParseComments)
			if err != nil {
				fmt.Fprintln(os.Stderr, err)
				os.Exit(2)
			}
			changed := false
			for _, imp := range f.Imports {
				v, _ := strconv.Unquote(imp.Path.Value)
				if r, ok := redirect[v]; ok {
					imp.Path.Value = strconv.Quote(r[1])
					imp.Name = ast.NewIdent(r[0])
					changed = true
				}
			}
			// close(quit) -> signal.CloseQuit(quit) in files that import os/signal
			hasSignal := false
			for _, imp := range f.Imports {
				if imp.Path.Value == strconv.Quote("verif/sim/simsignal") {
					hasSignal = true
				}
			}
			if hasSignal {
				ast.Inspect(f, func(nd ast.Node) bool {
					if call, ok := nd.(*ast.CallExpr); ok {
						// close(quit...) -> signal.CloseQuit(quit...): only the channel that ends the handler
						if id, ok := call.Fun.(*ast.Ident); ok && id.Name == "close" && len(call.Args) == 1 {
							if a, ok := call.Args[0].(*ast.Ident); ok && strings.Contains(strings.ToLower(a.Name), "quit") {
								call.Fun = &ast.SelectorExpr{X: ast.NewIdent("signal"), Sel: ast.NewIdent("CloseQuit")}
								closes++
							}
						}
					}
					// a bare `<-done` (main waits for the handler goroutine) -> signal.WaitDone(done)
					if es, ok := nd.(*ast.ExprStmt); ok {
						if u, ok := es.X.(*ast.UnaryExpr); ok && u.Op == token.ARROW {
							if a, ok := u.X.(*ast.Ident); ok && a.Name == "done" {
								es.X = &ast.CallExpr{Fun: &ast.SelectorExpr{X: ast.NewIdent("signal"), Sel: ast.NewIdent("WaitDone")}, Args: []ast.Expr{a}}
								closes++
							}
						}
					}
					return true
				})
			}
			if !changed {
				continue
			}
			var buf bytes.Buffer
			if err := format.Node(&buf, fset, f); err != nil {
				fmt.Fprintln(os.Stderr, err)
				os.Exit(2)
			}
			if err := os.WriteFile(p, buf.Bytes(), 0o644); err != nil {
				fmt.Fprintln(os.Stderr, err)
				os.Exit(2)
			}
			n++
		}
	}
	// overlay: the rewritten packages appear inside module verif without
	// touching /verif on disk
	verifDir := os.Getenv("VERIF_DIR")
	if verifDir == "" {
		verifDir = "/verif"
	}
	overlay := map[string]string{}
	// internal/term goes in unmodified: the real IsTerminal code runs against
	// real kernel objects that stand behind the simulated standard output
	for src, dst := range map[string]string{"cmd/gxz": "gxz", "internal/gflag": "gflag", "internal/xlog": "xlog", "internal/term": "term"} {
		ents, _ := os.ReadDir(filepath.Join(root, src))
		for _, e := range ents {
			name := e.Name()
			if !strings.HasSuffix(name, ".go") || strings.HasSuffix(name, "_test.go") {
				continue
			}
			overlay[filepath.Join(verifDir, "gxzsim", "gxzcopy", dst, name)] = filepath.Join(root, src, name)
		}
	}
	ob, _ := json.MarshalIndent(map[string]interface{}{"Replace": overlay}, "", " ")
	if err := os.WriteFile(filepath.Join(root, "overlay.json"), ob, 0o644); err != nil {
		fmt.Fprintln(os.Stderr, err)
		os.Exit(2)
	}
	fmt.Printf("rewrite: %d files redirected, %d close(quit) calls routed through the simulator\n", n, closes)
	if n < 3 {
		fmt.Fprintln(os.Stderr, "rewrite: expected at least cmd/gxz/file.go, main.go, gflag/flag.go and xlog/xlog.go")
		os.Exit(2)
	}
}
