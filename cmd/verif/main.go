// Command verif runs the deterministic-simulation checks for ulikunitz/xz
// that drive the library through its io.Writer/io.Reader seams (C01..C09,
// C11..C14, C16). The gxz checks (C10, C15) run from a scratch copy of the
// repository whose cmd/gxz embeds this command line (see gxzsim).
package main

import (
	_ "verif/checks"
	"verif/cli"
)

func main() { cli.Run() }
