//go:build covprobe

package main

import (
	"os"
	"strings"
	"testing"

	_ "verif/checks"
	"verif/sim"
)

// TestCoverage runs the quick batches of the library checks in-process so that
// `go test -coverpkg=github.com/ulikunitz/xz/...` can report which statements of
// the library the simulation reaches (tools: see DESIGN.md, reach measurement).
func TestCoverage(t *testing.T) {
	ids := strings.Fields(os.Getenv("COV_IDS"))
	for _, id := range ids {
		c := sim.Lookup(id)
		if c == nil {
			t.Fatalf("unknown check %s", id)
		}
		if rc := c.Batch("quick", 20260927); rc != 0 {
			t.Errorf("%s: exit %d", id, rc)
		}
	}
}
