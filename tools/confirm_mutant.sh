#!/bin/bash
# usage: confirm_mutant.sh <dir with patch.diff and demo/>   -> prints CONFIRMED or the reason it is not
# Confirms in a scratch worktree: patch applies, builds, suite green with it, demo fails with it and passes without.
export GOFLAGS=-mod=mod GOPROXY=off GOSUMDB=off GOTOOLCHAIN=local
d="$(readlink -f "$1")"; wt=$(mktemp -d /tmp/confirm-XXXXXX); rmdir "$wt"
git -C /repo worktree add -q --detach "$wt" HEAD || exit 2
cleanup() { git -C /repo worktree remove --force "$wt" 2>/dev/null; rm -rf "$wt"; }
trap cleanup EXIT
cd "$wt" || exit 2
git apply "$d/patch.diff" || { echo "NOT-CONFIRMED: patch does not apply"; exit 1; }
go build ./... || { echo "NOT-CONFIRMED: does not build"; exit 1; }
go vet ./... >/dev/null 2>&1 || echo "note: go vet complains"
go test -vet=off -count=1 ./... >suite.log 2>&1 || { echo "NOT-CONFIRMED: suite fails with the change"; tail -5 suite.log; exit 1; }
place() {
	for sub in "$d"/demo/*/; do
		[ -d "$sub" ] || continue
		cp -r "$sub" ./; echo "$(basename "$sub")"
	done
	for f in "$d"/demo/*.go; do
		[ -f "$f" ] || continue
		pkg=$(sed -n 's/^package \([a-z_]*\).*/\1/p' "$f" | head -1)
		case "$pkg" in xz|xz_test) dst=.;; lzma|lzma_test) dst=lzma;; main) dst=cmd/gxz;; *) dst=.;; esac
		cp "$f" "$dst/"; echo "$dst"
	done | sort -u
}
pkgs=$(place)
names=$(grep -rho '^func Test[A-Za-z0-9_]*' "$d"/demo | sed 's/func //' | paste -sd'|')
rc_with=0
for p in $pkgs; do go test -vet=off -count=1 -run "^($names)\$" ./$p >demo_with.log 2>&1 || rc_with=1; done
git apply -R "$d/patch.diff"
rc_without=0
for p in $pkgs; do go test -vet=off -count=1 -run "^($names)\$" ./$p >demo_without.log 2>&1 || rc_without=1; done
if [ $rc_with = 1 ] && [ $rc_without = 0 ]; then echo "CONFIRMED: $d (demo tests: $names)"; exit 0; fi
if [ $rc_with = 0 ] && [ $rc_without = 0 ]; then
	# a demonstration that needs the race detector
	git apply "$d/patch.diff"
	rc_with=0
	for p in $pkgs; do go test -race -vet=off -count=1 -run "^($names)\$" ./$p >demo_with.log 2>&1 || rc_with=1; done
	git apply -R "$d/patch.diff"
	for p in $pkgs; do go test -race -vet=off -count=1 -run "^($names)\$" ./$p >demo_without.log 2>&1 || rc_without=1; done
	if [ $rc_with = 1 ] && [ $rc_without = 0 ]; then echo "CONFIRMED (with -race): $d (demo tests: $names)"; exit 0; fi
fi
echo "NOT-CONFIRMED: demo with change rc=$rc_with, without rc=$rc_without"; tail -n 5 demo_with.log; tail -n 5 demo_without.log; exit 1
