/*
 * ptstep - runs a command under ptrace and numbers the system calls that change
 * the file system below one directory (create, write, close, rename, remove, and
 * writes to standard output), counted over ALL threads of the process, so that
 * the n-th such call is the same call in every run of a sequential program no
 * matter which OS thread the Go scheduler happens to use. At a chosen call it
 * can kill the process (before the call, after it, or after a prefix of a write
 * reached the file), make the call fail with an errno (optionally after a prefix
 * of a write was persisted), or send SIGINT to the process.
 *
 * It is the real-kernel counterpart of the simulated OS (verif/sim/simos) and is
 * used only to validate that simulation (C10 fidelity pass): same scenario, same
 * fault point, the real gxz binary in a real directory.
 *
 * usage: ptstep -d DIR -l LOG [-u UID] [-k N -w before|after|mid [-m BYTES]] [-f N -e ERRNO [-p BYTES]] [-s N] -- cmd args...
 * LOG gets one line per counted call: "<n> <kind> <path> <bytes>", then "exit <code>" or "signal <n>".
 */
#define _GNU_SOURCE
#include <errno.h>
#include <fcntl.h>
#include <grp.h>
#include <limits.h>
#include <signal.h>
#include <stdio.h>
#include <stdlib.h>
#include <string.h>
#include <sys/ptrace.h>
#include <sys/syscall.h>
#include <sys/types.h>
#include <sys/user.h>
#include <sys/wait.h>
#include <unistd.h>

static char dirreal[PATH_MAX];
static FILE *logf;
static long count;
static long kill_at, fail_at, sig_at;
static int kill_when; /* 0 before 1 after 2 mid */
static long mid_bytes, partial = -1;
static int fail_errno = ENOSPC;
static pid_t child;
static long run_uid; /* > 0: the command runs under this uid/gid (dropped before exec) */
static int cont_active;
static long cont_fd;

struct thr {
	pid_t tid;
	int used;
	int fake;       /* replace the return value on exit */
	long fake_ret;
	int kill_on_exit;
};
static struct thr thr[1024];

static struct thr *get(pid_t tid, int *isnew) {
	int freei = -1;
	for (int i = 0; i < 1024; i++) {
		if (thr[i].used && thr[i].tid == tid) { if (isnew) *isnew = 0; return &thr[i]; }
		if (!thr[i].used && freei < 0) freei = i;
	}
	if (freei < 0) { fprintf(stderr, "ptstep: too many threads\n"); exit(3); }
	memset(&thr[freei], 0, sizeof thr[freei]);
	thr[freei].used = 1;
	thr[freei].tid = tid;
	if (isnew) *isnew = 1;
	return &thr[freei];
}

static void readstr(pid_t tid, unsigned long addr, char *out, size_t max) {
	size_t n = 0;
	while (n + 1 < max) {
		errno = 0;
		long w = ptrace(PTRACE_PEEKDATA, tid, (void *)(addr + n), 0);
		if (errno) break;
		for (size_t i = 0; i < sizeof w && n + 1 < max; i++) {
			char c = ((char *)&w)[i];
			if (!c) { out[n] = 0; return; }
			out[n++] = c;
		}
	}
	out[n] = 0;
}

/* path of an open descriptor; returns 0 if unknown */
static int fdpath(pid_t tid, long fd, char *out, size_t max) {
	char p[64];
	snprintf(p, sizeof p, "/proc/%d/fd/%ld", tid, fd);
	ssize_t n = readlink(p, out, max - 1);
	if (n <= 0) return 0;
	out[n] = 0;
	if (out[0] != '/') return 0; /* anon_inode:[eventfd], pipe:[...], socket:[...]: not a file */
	char *d = strstr(out, " (deleted)");
	if (d && d[10] == 0) *d = 0;
	return 1;
}

/* is the path below the watched directory? writes the name relative to it */
static int indir(const char *path, char *rel, size_t max) {
	if (path[0] != '/') { /* relative to the working directory, which is DIR */
		snprintf(rel, max, "%s", path);
		return 1;
	}
	size_t n = strlen(dirreal);
	if (strncmp(path, dirreal, n) == 0 && path[n] == '/') {
		snprintf(rel, max, "%s", path + n + 1);
		return 1;
	}
	return 0;
}

static void setnr(pid_t tid, long nr) {
	struct user_regs_struct r;
	ptrace(PTRACE_GETREGS, tid, 0, &r);
	r.orig_rax = nr;
	ptrace(PTRACE_SETREGS, tid, 0, &r);
}
static void setarg3(pid_t tid, unsigned long v) {
	struct user_regs_struct r;
	ptrace(PTRACE_GETREGS, tid, 0, &r);
	r.rdx = v;
	ptrace(PTRACE_SETREGS, tid, 0, &r);
}
static void setret(pid_t tid, long v) {
	struct user_regs_struct r;
	ptrace(PTRACE_GETREGS, tid, 0, &r);
	r.rax = v;
	ptrace(PTRACE_SETREGS, tid, 0, &r);
}

static void on_entry(struct thr *t, struct __ptrace_syscall_info *si) {
	long nr = si->entry.nr;
	if (getenv("PTSTEP_DEBUG") && sig_at && count >= sig_at) fprintf(stderr, "tid %d syscall %ld (%llx %llx %llx)\n", t->tid, nr, (unsigned long long)si->entry.args[0], (unsigned long long)si->entry.args[1], (unsigned long long)si->entry.args[2]);
	__uint64_t *a = si->entry.args;
	char path[PATH_MAX], path2[PATH_MAX], rel[PATH_MAX], rel2[PATH_MAX];
	const char *kind = NULL;
	long nbytes = 0;
	rel[0] = rel2[0] = 0;
	switch (nr) {
	case SYS_openat:
		if (!(a[2] & O_CREAT)) return;
		readstr(t->tid, a[1], path, sizeof path);
		if (!indir(path, rel, sizeof rel)) return;
		kind = "create";
		break;
	case SYS_open:
		if (!(a[1] & O_CREAT)) return;
		readstr(t->tid, a[0], path, sizeof path);
		if (!indir(path, rel, sizeof rel)) return;
		kind = "create";
		break;
	case SYS_write:
		if (cont_active && (long)a[0] == cont_fd) {
			/* the rest of a write whose prefix was persisted: fails, not counted */
			cont_active = 0;
			setnr(t->tid, -1);
			t->fake = 1;
			t->fake_ret = -fail_errno;
			return;
		}
		if ((long)a[0] == 2) return;
		if ((long)a[0] == 1) {
			kind = "write-stdout";
			snprintf(rel, sizeof rel, "<stdout>");
		} else {
			if (!fdpath(t->tid, a[0], path, sizeof path) || !indir(path, rel, sizeof rel)) return;
			kind = "write";
		}
		nbytes = a[2];
		break;
	case SYS_close:
		if ((long)a[0] < 3) return;
		if (!fdpath(t->tid, a[0], path, sizeof path) || !indir(path, rel, sizeof rel)) return;
		kind = "close";
		break;
	case SYS_rename:
		readstr(t->tid, a[0], path, sizeof path);
		readstr(t->tid, a[1], path2, sizeof path2);
		if (!indir(path, rel, sizeof rel) || !indir(path2, rel2, sizeof rel2)) return;
		kind = "rename";
		break;
	case SYS_renameat:
	case SYS_renameat2:
		readstr(t->tid, a[1], path, sizeof path);
		readstr(t->tid, a[3], path2, sizeof path2);
		if (!indir(path, rel, sizeof rel) || !indir(path2, rel2, sizeof rel2)) return;
		kind = "rename";
		break;
	case SYS_unlink:
		readstr(t->tid, a[0], path, sizeof path);
		if (!indir(path, rel, sizeof rel)) return;
		kind = "remove";
		break;
	case SYS_unlinkat:
		if (a[2] & AT_REMOVEDIR) return;
		readstr(t->tid, a[1], path, sizeof path);
		if (!indir(path, rel, sizeof rel)) return;
		kind = "remove";
		break;
	default:
		return;
	}
	count++;
	if (rel2[0])
		fprintf(logf, "%ld %s %s -> %s %ld\n", count, kind, rel, rel2, nbytes);
	else
		fprintf(logf, "%ld %s %s %ld\n", count, kind, rel, nbytes);
	fflush(logf);
	if (sig_at == count) syscall(SYS_tgkill, child, t->tid, SIGINT); /* thread-directed: a process-directed signal is not noticed while every thread sits in a ptrace stop */
	if (kill_at == count) {
		if (kill_when == 0) {
			setnr(t->tid, -1);
			kill(child, SIGKILL);
		} else {
			if (kill_when == 2 && nr == SYS_write && mid_bytes < nbytes) setarg3(t->tid, mid_bytes);
			t->kill_on_exit = 1;
		}
	}
	if (fail_at == count) {
		if (nr == SYS_write && partial > 0 && partial < nbytes) {
			setarg3(t->tid, partial); /* the prefix reaches the file; the retry of the rest fails */
			cont_active = 1;
			cont_fd = a[0];
		} else {
			setnr(t->tid, -1);
			t->fake = 1;
			t->fake_ret = -fail_errno;
		}
	}
}

static void on_exit_stop(struct thr *t) {
	if (t->fake) {
		setret(t->tid, t->fake_ret);
		t->fake = 0;
	}
	if (t->kill_on_exit) {
		t->kill_on_exit = 0;
		kill(child, SIGKILL);
	}
}

static int errno_of(const char *s) {
	if (!strcmp(s, "ENOSPC")) return ENOSPC;
	if (!strcmp(s, "EIO")) return EIO;
	if (!strcmp(s, "EACCES")) return EACCES;
	if (!strcmp(s, "EDQUOT")) return EDQUOT;
	return atoi(s);
}

int main(int argc, char **argv) {
	const char *dir = ".", *logname = NULL;
	int i = 1;
	for (; i < argc && strcmp(argv[i], "--"); i++) {
		if (!strcmp(argv[i], "-d") && i + 1 < argc) dir = argv[++i];
		else if (!strcmp(argv[i], "-l") && i + 1 < argc) logname = argv[++i];
		else if (!strcmp(argv[i], "-k") && i + 1 < argc) kill_at = atol(argv[++i]);
		else if (!strcmp(argv[i], "-w") && i + 1 < argc) { i++; kill_when = !strcmp(argv[i], "before") ? 0 : !strcmp(argv[i], "after") ? 1 : 2; }
		else if (!strcmp(argv[i], "-m") && i + 1 < argc) mid_bytes = atol(argv[++i]);
		else if (!strcmp(argv[i], "-f") && i + 1 < argc) fail_at = atol(argv[++i]);
		else if (!strcmp(argv[i], "-e") && i + 1 < argc) fail_errno = errno_of(argv[++i]);
		else if (!strcmp(argv[i], "-p") && i + 1 < argc) partial = atol(argv[++i]);
		else if (!strcmp(argv[i], "-s") && i + 1 < argc) sig_at = atol(argv[++i]);
		else if (!strcmp(argv[i], "-u") && i + 1 < argc) run_uid = atol(argv[++i]);
		else { fprintf(stderr, "ptstep: bad option %s\n", argv[i]); return 3; }
	}
	if (i >= argc - 1) { fprintf(stderr, "usage: ptstep -d DIR -l LOG [...] -- cmd args\n"); return 3; }
	i++;
	if (!realpath(dir, dirreal)) { perror("ptstep: realpath"); return 3; }
	logf = logname ? fopen(logname, "w") : stderr;
	if (!logf) { perror("ptstep: log"); return 3; }

	child = fork();
	if (child < 0) { perror("fork"); return 3; }
	if (child == 0) {
		if (chdir(dir)) _exit(126);
		if (run_uid > 0) {
			if (setgroups(0, NULL) || setgid(run_uid) || setuid(run_uid)) _exit(125);
		}
		ptrace(PTRACE_TRACEME, 0, 0, 0);
		raise(SIGSTOP);
		execvp(argv[i], argv + i);
		_exit(127);
	}
	int st;
	waitpid(child, &st, 0);
	get(child, NULL);
	ptrace(PTRACE_SETOPTIONS, child, 0,
	       PTRACE_O_TRACESYSGOOD | PTRACE_O_TRACECLONE | PTRACE_O_TRACEFORK | PTRACE_O_TRACEVFORK | PTRACE_O_TRACEEXEC | PTRACE_O_EXITKILL);
	ptrace(PTRACE_SYSCALL, child, 0, 0);
	int result = -1;
	for (;;) {
		pid_t tid = waitpid(-1, &st, __WALL);
		if (tid < 0) break;
		if (WIFEXITED(st) || WIFSIGNALED(st)) {
			for (int k = 0; k < 1024; k++)
				if (thr[k].used && thr[k].tid == tid) thr[k].used = 0;
			if (tid == child) {
				if (WIFEXITED(st)) { fprintf(logf, "exit %d\n", WEXITSTATUS(st)); result = WEXITSTATUS(st); }
				else { fprintf(logf, "signal %d\n", WTERMSIG(st)); result = 128 + WTERMSIG(st); }
				fflush(logf);
			}
			continue;
		}
		if (!WIFSTOPPED(st)) continue;
		int isnew;
		struct thr *t = get(tid, &isnew);
		int sig = WSTOPSIG(st);
		if (sig == (SIGTRAP | 0x80)) {
			struct __ptrace_syscall_info si;
			memset(&si, 0, sizeof si);
			if (ptrace(PTRACE_GET_SYSCALL_INFO, tid, sizeof si, &si) > 0) {
				if (si.op == PTRACE_SYSCALL_INFO_ENTRY) on_entry(t, &si);
				else if (si.op == PTRACE_SYSCALL_INFO_EXIT) on_exit_stop(t);
			}
			ptrace(PTRACE_SYSCALL, tid, 0, 0);
		} else if (sig == SIGTRAP && (st >> 16) != 0) {
			ptrace(PTRACE_SYSCALL, tid, 0, 0); /* clone / exec event */
		} else if (sig == SIGSTOP && isnew) {
			ptrace(PTRACE_SYSCALL, tid, 0, 0); /* first stop of a new thread */
		} else {
			if (getenv("PTSTEP_DEBUG"))
				fprintf(stderr, "sig %d -> tid %d\n", sig, tid);
			ptrace(PTRACE_SYSCALL, tid, 0, sig); /* hand the signal to the tracee */
		}
	}
	return result < 0 ? 3 : result;
}
