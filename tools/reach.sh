#!/bin/bash
# Reach measurement: statement coverage of github.com/ulikunitz/xz and .../lzma under the quick batches of the
# library checks (cmd/verif/cov_test.go, build tag covprobe; the instrumented code is 5-10x slower, so fewer runs
# complete within the wall-clock budgets than in a normal quick run). Prints the functions not fully covered.
# usage: tools/reach.sh [ids...]
cd "$(dirname "$0")/.." || exit 2
export GOFLAGS=-mod=mod GOPROXY=off GOSUMDB=off GOTOOLCHAIN=local
ids="${*:-C01 C02 C03 C04 C05 C06 C07 C08 C09 C11 C12 C13 C16}"
out=$(mktemp -d /var/tmp/verif-reach.XXXXXX)
trap 'rm -rf "$out"; rm -f evidence/*.cov' EXIT
COV_IDS="$ids" VERIF_DIR="$(pwd)" VERIF_EVIDENCE_SUFFIX=.cov VERIF_C14_SKIP_RACE=1 go test -tags "liblzma covprobe" -count=1 -timeout 3h \
	-run TestCoverage -coverpkg=github.com/ulikunitz/xz,github.com/ulikunitz/xz/lzma -coverprofile="$out/cov.out" ./cmd/verif | grep -v "^check=\|^done:"
go tool cover -func="$out/cov.out" | awk '{p=$NF; sub("%","",p); if (p+0 < 100.0) print $1, $2, $NF}' | sed 's#github.com/ulikunitz/xz/##'
