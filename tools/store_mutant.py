#!/usr/bin/env python3
"""store_mutant.py <src dir e.g. /tmp/mut-out/C04-b/m1> <property> <detected-by comma list> <what> [missed-note]
Copies a confirmed seeded change into /verif/seeded/<id>/ with meta.json."""
import os, shutil, json, re, sys
src, prop, caught, what = sys.argv[1:5]
note = sys.argv[5] if len(sys.argv) > 5 else ""
name = "-".join(src.rstrip("/").split("/")[-2:])
dst = f"/verif/seeded/{name}"
shutil.rmtree(dst, ignore_errors=True)
os.makedirs(dst)
shutil.copy(src + "/patch.diff", dst)
shutil.copytree(src + "/demo", dst + "/demo")
shutil.copy(src + "/NOTES.md", dst + "/NOTES.md")
tests = []
for root, _, files in os.walk(src + "/demo"):
    for f in files:
        tests += re.findall(r'^func (Test\w+)', open(os.path.join(root, f)).read(), re.M)
meta = {"id": name, "breaks_property": prop, "what": what + ((" (missed at first: " + note + ")") if note else ""),
        "needs_to_manifest": open(src + "/NOTES.md").read().split('\n')[0][:400],
        "author": "independent sub-agent given only the property text, a scratch worktree and a list of ideas already used",
        "confirmed": {"how": "tools/confirm_mutant.sh in a scratch worktree of /repo HEAD: patch applies, go build ./..., suite green with the patch, demo tests fail with it and pass without", "demo_tests": tests, "result": "CONFIRMED"},
        "checks_run": {"how": "tools/runmutant.sh (git -C /repo apply; ./check <id> quick; git -C /repo checkout -- .)", "detected_by": caught.split(",")}}
json.dump(meta, open(dst + "/meta.json", "w"), indent=1)
print("stored", dst)
