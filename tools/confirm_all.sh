#!/bin/bash
# Re-confirms every stored seeded change against the current /repo HEAD (patch applies, builds, suite green with
# it, demonstration fails with it and passes without). Prints one line per entry; exit 1 if any is not confirmed.
cd "$(dirname "$0")/.." || exit 2
bad=0
for d in seeded/*/; do
	[ -f "$d/patch.diff" ] || continue
	out=$(tools/confirm_mutant.sh "$(readlink -f "$d")" 2>&1 | tail -1)
	[ -f "$d/demo/replay.json" ] && out="CONFIRMED (demonstration is a replay file, see NOTES.md)"
	case "$out" in CONFIRMED*) echo "ok $(basename $d)";; *) echo "NOT-CONFIRMED $(basename $d): $out"; bad=$((bad+1));; esac
done
echo "not confirmed: $bad"
[ $bad = 0 ]
