#!/usr/bin/env python3
"""Determinism self-test (DESIGN.md §7.2): for every check, the same VERIF_SEED must give the same
batch digest (XOR of per-run event-log digests, each tagged with its run index) in separate processes,
at worker counts 1/4/16 and GOMAXPROCS 1/4/16. Usage: selftest_determinism.py [runs] [seeds] [ids...]
Builds nothing: run ./check once first (bin/verif, bin/gxzsim)."""
import os, re, subprocess, sys, itertools, json
HERE = os.path.dirname(os.path.dirname(os.path.abspath(__file__)))
runs = int(sys.argv[1]) if len(sys.argv) > 1 else 200
nseeds = int(sys.argv[2]) if len(sys.argv) > 2 else 3
ids = sys.argv[3:] or [c["property_id"] for c in json.load(open(os.path.join(HERE, "MANIFEST.json")))["checks"]]
bad = 0
for pid in ids:
    gxz = pid in ("C10", "C15")
    binp = os.path.join(HERE, "bin", "gxzsim" if gxz else "verif")
    for seed in range(1, nseeds + 1):
        digs = {}
        for workers, procs in [(1, 1), (4, 4), (16, 16), (16, 1), (1, 16), (16, 16)]:
            env = dict(os.environ, VERIF_RUNS=str(runs), VERIF_WORKERS=str(workers), GOMAXPROCS=str(procs),
                       VERIF_EVIDENCE_SUFFIX=".selftest", VERIF_DIR=HERE, VERIF_C14_SKIP_RACE="1")
            if gxz: env["VERIF_GXZSIM"] = "1"
            out = subprocess.run([binp, "check", pid, "--tier", "quick", "--seed", str(seed)], env=env, capture_output=True, text=True)
            m = re.search(r"runs=(\d+)/(\d+).*digest=([0-9a-f]+)", out.stdout)
            if not m or out.returncode not in (0,):
                print(f"{pid} seed={seed} workers={workers} GOMAXPROCS={procs}: exit {out.returncode}\n{out.stdout[-400:]}")
                bad += 1
                continue
            digs.setdefault((m.group(1), m.group(3)), []).append((workers, procs))
        ok = len(digs) == 1
        print(f"{pid} seed={seed}: {'identical' if ok else 'DIVERGED'} across {sum(len(v) for v in digs.values())} executions {list(digs.keys())}")
        if not ok:
            bad += 1
for f in os.listdir(os.path.join(HERE, "evidence")):
    if f.endswith(".selftest"): os.remove(os.path.join(HERE, "evidence", f))
sys.exit(1 if bad else 0)
