#!/usr/bin/env python3
"""mkprompt.py <property id> <wave letter> <round word> <workdir>  - writes the brief for an independent author of
seeded changes: the property record, the ideas and functions used in earlier rounds (from seeded/*/meta.json and
the stored patches), nothing about the checks. Output on stdout."""
import json, os, re, sys, glob
pid, wave, rnd, wd = sys.argv[1:5]
V = os.path.dirname(os.path.dirname(os.path.abspath(__file__)))
prop = next(json.loads(l) for l in open(V + "/properties.jsonl") if json.loads(l)["id"] == pid)
for k in ("added_in_round", "source"):
    prop.pop(k, None)
ideas, funcs = [], set()
for d in sorted(glob.glob(V + "/seeded/*/")):
    m = json.load(open(d + "meta.json"))
    if m["breaks_property"] != pid and not os.path.basename(d.rstrip("/")).startswith(pid):
        continue
    w = re.sub(r" \(missed at first:.*", "", m["what"])
    ideas.append("- " + w[:230])
    cur = None
    for l in open(d + "patch.diff"):
        if l.startswith("+++ b/"):
            cur = l[6:].strip()
        mm = re.match(r"@@.*@@ func (?:\([^)]*\) )?(\w+)", l)
        if mm and cur:
            funcs.add(f"{cur}:{mm.group(1)}")
out = f"""You are helping to test a verification framework by writing *seeded defects* ("mutants") for the Go library ulikunitz/xz (pure-Go xz / LZMA / LZMA2 compression plus the gxz command-line tool).

Your private scratch copy of the repository is the git worktree `{wd}` (detached HEAD). Work ONLY inside `{wd}` and write your results under `/tmp/mut-out/{pid}-{wave}/`. Do NOT read, list or modify anything under `/verif` or `/repo` - your work must be independent of them. Do NOT use `git stash` (the stash is shared between worktrees); undo with `git checkout -- . && git clean -fdq` or `git apply -R`. There is no network. Every shell call needs:
`export GOFLAGS=-mod=mod GOPROXY=off GOSUMDB=off GOTOOLCHAIN=local`
The existing test suite is run with `cd {wd} && go test -vet=off -count=1 ./...` (69 tests, ~3 s) and currently passes.

Here is one semantic property that the library is supposed to satisfy (JSON record; `anchors` names the code it lives in):

```json
{json.dumps(prop, indent=1)}
```

TASK: write TWO different changes to the library source (call them m1 and m2), each of which
 1. compiles (`go build ./...`) and keeps the existing test suite green, unedited;
 2. breaks the property above - you must prove it with a demonstration (one or more Go `_test.go` files) that FAILS deterministically with your change applied and PASSES on the unchanged tree;
 3. needs something SPECIFIC to manifest - ordinary use (compress a text file with default settings, decompress it) must NOT expose it;
 4. is realistic: it should read like a plausible refactoring, optimisation, clean-up or well-meant "bug fix" that a maintainer could merge by mistake - no blatant sabotage, no special-casing of magic inputs, no randomness, no time dependence. Keep the diff small (typically < 40 changed lines) and touch only non-test source files;
 5. is different in mechanism and code site from each other and from everything used in earlier rounds (listed below).

This is the {rnd} round for this property; all earlier mutants were caught in the end, so the easy and the medium ideas are gone. Earlier ideas (do not redo these or near-duplicates):
{chr(10).join(ideas)}

Functions already modified by earlier mutants (choose different functions where you can): {", ".join(sorted(funcs))}

What makes a mutant valuable now - look for: conditions that need a PRECISE numeric coincidence (an exact size, alignment or count - not just 'large'); state that is carried across THREE or more steps; rarely used API entry points and option combinations; interactions between two features that are each well tested alone; code that only runs for particular lc/lp/pb, check types, dictionary sizes or header field combinations; differences between io interface variants of the arguments (io.ByteReader / io.ByteWriter / io.WriterTo / io.ReaderFrom present or absent); behaviour that differs only at the edge of what a configuration check accepts. If, while reading the code, you notice that the UNCHANGED tree already violates the property for some input, say so prominently in your final answer (with the input) - that is valuable too.

DELIVERABLES, for k in (1,2), under `/tmp/mut-out/{pid}-{wave}/m<k>/`:
 * `patch.diff` - output of `git diff` in `{wd}` with ONLY your change to non-test source files applied on top of HEAD (each patch is independent and relative to HEAD, not stacked on the other one). It must apply with `git apply` to a clean checkout of HEAD.
 * `demo/` - the demonstration: Go test file(s). A file with `package xz`/`xz_test` will be copied to the repository root, `package lzma`/`lzma_test` to `lzma/`, `package main` to `cmd/gxz/`; alternatively put a whole sub-directory (its own package inside the module, e.g. `demo/zzdemo/x_test.go`) which is copied to the repository root as is. Test function names must be unique (prefix them `Test{pid}{wave}`). The demo must not depend on anything outside the repository and the Go standard library. For gxz demos, build the binary with `go build` inside the test and run it in `t.TempDir()`.
 * `NOTES.md` - FIRST LINE exactly of the form `DEMO: copy demo/<file> to <where> and run <command>`; then: what the change is, why it looks plausible, why it breaks the property, and precisely what is needed for it to manifest (and why the existing tests and ordinary use do not see it).

Practical: write files with several small tool calls rather than one huge one (keep every single file you write under 250 lines, and never put more than one file into one tool call); keep your messages short.

Before you finish, VERIFY each mutant yourself from a clean state: `git -C {wd} checkout -- . && git -C {wd} clean -fdq`, apply the patch with `git apply`, run `go build ./...` and the full suite (must pass), copy the demo in and run it (must FAIL); then `git apply -R` the patch and run the demo again (must PASS). Finally leave the worktree clean. In your final answer, state for each mutant in 2-3 lines what it does and what triggers it, and confirm the verification outcomes. If you truly cannot find a second distinct mutant, deliver one and say so.
"""
sys.stdout.write(out)
