#!/usr/bin/env python3
"""Regenerates /verif/MANIFEST.json from the table below (one place to edit)."""
import json, os, sys
HERE = os.path.dirname(os.path.dirname(os.path.abspath(__file__)))

CHECKS = {
 "C01": dict(engine="wsim", cat="exploration", ref="DESIGN.md §4 C01",
   technique="deterministic simulation of xz writer call histories behind a simulated sink (seeded search over Write partitions, block-rotation instants, zero-length writes, redundant Close / use after Close); library reader over the recorded sink history as oracle; minimised JSON scenario replay",
   text="Seeded exploration of call histories x configurations x payload families; every run monitors the API contract call by call and decodes the recorded sink image with the library reader. A clean batch is evidence over the runs executed, not a proof; the history axis (partition, rotation, post-Close calls) is what the simulator owns, input x configuration is sampled.",
   note="Trusts: Go runtime, the harness's payload recipes, the library's own xz.Reader as decoder (independent validity is C02). Sink never fails here (C09)."),
}

NOT_APPLICABLE = {
 "C17": "compression effectiveness: output length is a pure function of (input, configuration) - the statement even fixes 'without intermediate Flush'; no schedule, clock, fault, crash point or history for a simulator to own. Measuring sizes on generated inputs would be plain input generation, not deterministic simulation.",
 "C18": "dictionary-size code: pure arithmetic over a finite domain (2^32-1 capacities, 256 codes); the deciding method would be exhaustive evaluation, i.e. enumeration of a bounded space, not simulation. No nondeterminism, I/O, fault or history enters the statement.",
}
PENDING = "check not built yet in this session; planned per DESIGN.md §4 (will be claimed once its engine runs clean on the unchanged tree)"

def main():
    props = [json.loads(l)["id"] for l in open(os.path.join(HERE, "properties.jsonl"))]
    checks = []
    for pid in props:
        c = CHECKS.get(pid)
        if not c: continue
        checks.append({
            "property_id": pid,
            "quick_cmd": f"./check {pid} quick",
            "thorough_cmd": f"./check {pid} thorough",
            "evidence_file": f"/verif/evidence/{pid}.json",
            "replay_cmd_template": "./check replay {path}",
            "engine": c["engine"],
            "level_claimed": {"category": c["cat"], "text": c["text"], "design_ref": c["ref"]},
            "level_note": c["note"],
            "technique": c["technique"],
        })
    na = []
    for pid in props:
        if pid in CHECKS: continue
        na.append({"property_id": pid, "reason": NOT_APPLICABLE.get(pid, PENDING)})
    engines = {}
    for pid, c in CHECKS.items():
        engines.setdefault(c["engine"], []).append(pid)
    m = {
        "version": 1,
        "setup_cmd": "./setup.sh",
        "hooks": {
            "guard": "verif",
            "enable": "no hook exists in /repo: the library is driven through the io.Writer/io.Reader arguments it already takes; gxz is simulated from a scratch copy whose os, os/signal and internal/term imports are redirected (DESIGN.md §2.6). Build tag 'verif' is reserved and unused.",
            "baseline_off_cmd": "cd /repo && GOFLAGS=-mod=mod GOPROXY=off GOSUMDB=off GOTOOLCHAIN=local go test -vet=off -count=1 ./...",
            "source_commits": [],
            "add_only": True,
        },
        "engines": [{"name": e, "path": "/verif/checks", "serves_properties": sorted(p), "kind_free_text": "deterministic simulation engine, see DESIGN.md §2"} for e, p in sorted(engines.items())],
        "checks": checks,
        "not_applicable": na,
        "notes": "Exit codes of every command: 0 held, 1 VIOLATION (with replay file), 2 infrastructure trouble (build, watchdog, oracle disagreement) - never reported as a violation. Known findings: /verif/known-findings.json.",
    }
    json.dump(m, open(os.path.join(HERE, "MANIFEST.json"), "w"), indent=1)
    print("wrote MANIFEST.json:", len(checks), "checks,", len(na), "not claimed")

if __name__ == "__main__":
    main()
