#!/usr/bin/env python3
"""Regenerates /verif/MANIFEST.json from the table below (one place to edit)."""
import json, os, sys
HERE = os.path.dirname(os.path.dirname(os.path.abspath(__file__)))

CHECKS = {
 "C01": dict(engine="wsim", cat="exploration", ref="DESIGN.md §4 C01",
   technique="deterministic simulation of xz writer call histories behind a simulated sink (seeded search over Write partitions, block-rotation instants, zero-length writes, redundant Close / use after Close); library reader over the recorded sink history as oracle; minimised JSON scenario replay",
   text="Seeded exploration of call histories x configurations x payload families; every run monitors the API contract call by call and decodes the recorded sink image with the library reader. A clean batch is evidence over the runs executed, not a proof; the history axis (partition, rotation, post-Close calls, writes through io.Copy from a plain reader whose last bytes come alone or together with io.EOF) is what the simulator owns, input x configuration is sampled. One case in 20 moves one configuration field out of its legal range: the constructor refusing it is no verdict, an accepted configuration is judged like any other.",
   note="Trusts: Go runtime, the harness's payload recipes, the library's own xz.Reader as decoder (independent validity is C02). Sink never fails here (C09)."),

 "C02": dict(engine="wsim", cat="exploration", ref="DESIGN.md §4 C02",
   technique="deterministic simulation of xz writer call histories; every recorded sink history is judged by an independent executable model of the .xz/LZMA2 format (own parser and decoder written from the specifications) and by liblzma through cgo",
   text="Seeded exploration over configurations x payloads x Write partitions; each emitted image is parsed, decoded and cross-checked (CRCs, sizes, index, backward size, padding, checks, dictionary code minimal and covering all distances, exact BlockSize for non-last blocks) by refxz/reflzma and liblzma. Oracle disagreement is exit 2, never a violation. As in C01, one case in 20 carries one configuration field outside its legal range (e.g. lc+lp > 4): whatever the library emits for a configuration it accepts is judged.",
   note="Trusted base: verif/ref/refxz + reflzma (independent of /repo; agree with liblzma and the reference encoder on generated streams), liblzma 5.4.1 when it links, Go std hashes. No fault dimension (validity under faults is checked inside C09)."),
 "C03": dict(engine="rsim", cat="exploration", ref="DESIGN.md §4 C03",
   technique="deterministic simulation: xz reader fed by a simulated foreign peer (specification-driven generator of arbitrary legal op/chunk/container layouts, liblzma encoder, frozen xz-utils corpus) behind a fragmenting source with seeded Read schedules and reader DictCap; three-way oracle",
   text="Seeded exploration of the language of valid LZMA2-only .xz streams (generated from the grammar of the format, liblzma-encoded, corpus) x reader DictCap x fragmentation x Read schedule. Output must equal generator content and reference decoder output, with clean EOF, for every DictCap.",
   note="Trusted base: refenc/refxz/reflzma, liblzma. The stream space is sampled; the simulator owns fragmentation, schedule and DictCap."),
 "C06": dict(engine="wsim", cat="exploration", ref="DESIGN.md §4 C06",
   technique="deterministic simulation of classic-LZMA writer call histories incl. the explicit-size contract (surplus and deficit histories), header re-parsed independently, library reader as decoder",
   text="Seeded exploration over all 225 property codes, DictCap/BufSize corners, both matchers, marker/size/size+marker, Size=len incl. 0, Write partitions, sinks with and without io.ByteWriter; contract monitored call by call (surplus refused with n==remaining, deficit fails Close), header truthfulness, round trip through lzma.Reader. Histories include writes through io.Copy from a plain reader (data alone or together with io.EOF) and configurations with one field outside its legal range (refusal = no verdict).",
   note="Trusts the library's lzma.Reader as decoder (foreign decoders: C07). Calls after Close unconstrained for this writer."),
 "C07": dict(engine="wsim+rsim", cat="exploration", ref="DESIGN.md §4 C07",
   technique="deterministic simulation both ways: writer histories decoded by the independent reference decoder and liblzma; streams of a simulated foreign peer (spec-driven generator in all three termination modes, liblzma alone encoder, corpus) read by lzma.Reader under seeded fragmentation and Read schedules",
   text="Writer side: C06-style histories restricted to lc+lp<=4, output decoded by reflzma (distances bounded by the header dictionary) and liblzma, header truthfulness. Reader side: generated/foreign valid .lzma streams incl. zero-length content, three-way equality.",
   note="Trusted base: reflzma (applies liblzma's .lzma termination rules), liblzma 5.4.1, refenc."),
 "C08": dict(engine="wsim", cat="exploration", ref="DESIGN.md §4 C08",
   technique="deterministic simulation of LZMA2 writer call histories over {Write, Flush, Close, post-Close}: the sink image at every Flush return (= the image a crash right after the acknowledged Flush leaves) is decoded by the reference decoder and Reader2; idle Flush must emit nothing",
   text="Seeded exploration of histories with Flush biased around the chunk limits, after incompressible segments, twice in a row and on a fresh writer. Invariants at each Flush return (whole chunks, no end chunk, decodes to exactly the bytes written before) and after Close (complete image decodes under Reader2, reflzma, liblzma; later calls fail and emit nothing). Two kinds of margin probe per batch (a long far match the adaptive model does not expect; and a match that goes against probabilities driven to their limits by 1600 training matches first - up to 15 bytes for one operation): the expensive operation is placed, by bisection over the chunk headers of recorded sink images, at the compressed-size limit of a chunk, and every history of a 16-byte window around that point must satisfy the whole contract. Histories include writes through io.Copy and configurations one field outside the legal range (refusal = no verdict).",
   note="Trusted base: reflzma, liblzma. Nothing demanded between flushes. Sink never fails here (C09). Rare expensive payload shapes (almost incompressible data, noise with far copies, one match 16-40 MiB back in a 32/64 MiB dictionary) are part of the quick batch."),
 "C12": dict(engine="rsim", cat="exploration", ref="DESIGN.md §4 C12",
   technique="deterministic simulation of an append-only file of several writer sessions plus stream padding: exhaustive padding enumeration 0..16 for chains of <=3 streams x SingleStream, seeded longer chains, trailing garbage, under fragmentation and Read schedules; executable model of the concatenation law as oracle",
   text="The short-chain padding space is enumerated completely (10470 cases); longer chains, mixed writers/checks, empty streams, runs of 70-300 streams without content, sources that return (0, nil) now and then, and schedules are seeded; one case per batch has 40-56 MiB of stream padding and runs in a process of its own (a child killed by the Go runtime, e.g. by a stack overflow, is a violation). Model: only aligned padding after streams is legal; SingleStream yields exactly the first content and errors iff a byte follows.",
   note="Enumeration is complete only for the stated sub-space; stream lists are sampled."),
 "C13": dict(engine="rsim", cat="exploration", ref="DESIGN.md §4 C13",
   technique="deterministic simulation of reader schedules: seeded Read-length schedules (incl. 0 and 1 bytes, exactly-remaining, remaining+1) x source fragmentation (1-byte, short reads, EOF with data) x post-EOF reads against a sequential byte-stream model, for xz, LZMA and LZMA2 readers",
   text="The schedule space (caller buffer sizes x source fragmentation incl. calls that return (0, nil) x EOF delivery) is what the simulator owns and samples by seed over valid multi-block/multi-chunk/multi-stream streams of the three formats.",
   note="Streams sampled; a zero-length Read may return (0,nil) any time and (0,EOF) only once all content is delivered."),
 "C16": dict(engine="rsim+wsim", cat="exploration", ref="DESIGN.md §4 C16",
   technique="deterministic simulation with a simulated peer sending chunk histories: all chunk-kind sequences up to length 4 and all 256 control bytes in every reachable chunk state realised as concrete streams, seeded longer walks under fragmentation/Read schedules, oracle = format chunk-rule automaton cross-checked per case against reference decoder and liblzma; writer side: chunk headers walked in recorded writer histories",
   text="Two complete sub-spaces (2800 short sequences, 5x256 control bytes) inside a seeded exploration (walks up to 14 chunks, chunks filled to the 16-bit size limits, chunks of the most expensive legal operations whose compressed size exceeds their data by a third, writer histories of the LZMA2 and xz writers). Legal => decoded content equals generator content; illegal at chunk j => non-EOF error and no byte beyond the chunks before j.",
   note="Exploration level overall; the enumerated sub-spaces are reported under exhaustive_subspaces. Legality automaton cross-checked against reflzma and liblzma on every case."),

 "C04": dict(engine="dfault", cat="fault_enumeration", ref="DESIGN.md §4 C04",
   technique="deterministic simulation of stored-data faults between writer and reader: per sampled stream every single-bit flip, every one-byte deletion and insertion, seeded bursts (<=32 bits) / range edits / double flips, and a structural mutator that edits one redundant field and re-seals the CRC32s - wrong, overflowing and over-long size fields, fields running over the end of their header, multi-byte filter ids, compressed-size fields of the LZMA2 chunk headers inside the block data, index/backward-size/flag/padding (single bytes and cancelling pairs)/check edits - (each edit first shown to the independent reference parser, which must reject it)",
   text="The per-stream fault spaces (all bit flips, all byte insert/delete offsets, all applicable field edits) are enumerated completely; streams (single-/multi-block, all check types, library- and generator-written, multi-stream for field edits) are sampled. Oracle 1: never a clean EOF after bytes that differ from the original (genuine checksum collisions counted, not reported). Oracle 2: every field edit the reference parser rejects must be reported as an error, also for check None.",
   note="Trusted base: refxz/reflzma for sites and for the mutator's self-check (a still-valid edit is exit 2). Streams are sampled; beyond 16 KiB or when a deterministic cost proxy is exceeded, positions are strided with structure boundaries kept."),
 "C05": dict(engine="dfault", cat="fault_enumeration", ref="DESIGN.md §4 C05",
   technique="deterministic simulation with the single stored-data fault 'writer process died / tail lost': every cut position of each sampled stream (.xz single- and multi-stream, raw LZMA2, .lzma in three termination modes) is decoded behind the simulated source",
   text="Exhaustive per stream (every proper prefix; for multi-stream files cuts on stream-end / 4-byte padding boundaries excluded as the property says); streams sampled from the library writers and the reference encoder. Oracle: open or some Read fails with a non-EOF error (a bare io.EOF from a constructor counts as end-of-stream, i.e. as failure of the property); bytes delivered before are a prefix of the content; and a caller that reads on after that error (24 more reads, as bufio.Reader.WriteTo does after an error that came with data) is never told that the stream has ended.",
   note="Process-crash semantics (stored prefix intact). Streams > 16 KiB or very many blocks: strided cuts with all structure boundaries kept (counters in evidence say how many streams were enumerated completely)."),
 "C09": dict(engine="iofault", cat="fault_enumeration", ref="DESIGN.md §4 C09",
   technique="deterministic simulation with a fault-injecting sink and source: every sink-call index k x {fail once, fail forever} x {no bytes, partial write} over xz/LZMA/LZMA2 writer histories always finished with Close, Close; every source offset 0..len x {bare error, error together with data} over the three readers (incl. SingleStream)",
   text="Per scenario the fault positions are enumerated completely (K re-counted per run); scenarios are sampled. Sink faults per call index: fail once / forever x nothing / a prefix / the full byte count persisted. Source faults per offset: sticky bare, sticky with the last good bytes, and transient (returned bare once, the source carries on). Writer oracle: no panic in any call, some call returns an error whenever the sink returned one, and a history in which every call returned nil leaves a complete valid stream. Reader oracle: the injected error (or one wrapping it) surfaces from open or Read, never io.EOF, no panic, delivered bytes a prefix of the content, and reads issued after the error never end in a clean end of stream with content missing or wrong.",
   note="Source errors are sticky by design (io.ReadFull / LimitReader / byte adapters legitimately drop an error that arrives with enough data). Sinks never return short counts without an error. ByteWriter sinks with > 400 calls are strided."),
 "C11": dict(engine="dfault+rsim", cat="exploration", ref="DESIGN.md §4 C11",
   technique="deterministic simulation of hostile stored data for the three readers: seeded structure-aware fault injection (up to 3 stacked bit/byte/range faults on valid streams with CRC32s re-sealed half of the time, header-valid garbage incl. hostile uvarints/record counts/chunk headers, PRNG bytes) under fragmentation and Read schedules, with a per-Read step budget counted at the source seam and a wall-clock watchdog",
   text="Seeded exploration without coverage feedback (honest limit: this is not coverage-guided fuzzing). Oracle: no panic escapes, 0 <= n <= len(p), every Read returns within the step budget (<=16 empty source calls, <= len(input)+16 source calls) and the 30 s watchdog. Inputs declaring > 64 MiB of dictionary are excluded as the property says.",
   note="Outcome classes and which structure faults landed in are counted in evidence as reach probes."),

 "C10": dict(engine="gxzsim", cat="fault_enumeration", ref="DESIGN.md §4 C10, §2.6",
   technique="deterministic simulation of the gxz process on a simulated file system: the unmodified main() of a scratch copy of cmd/gxz runs in-process over verif/sim/simos (os, os/signal, path/filepath, term redirected by a go/ast import rewrite + build overlay); every file-system mutation of a run is enumerated as kill point (before / after / mid-write) and as ENOSPC/EIO fault point, reads fail at seeded offsets; data-loss invariants evaluated on the simulated directory after every kill and every run",
   text="Per scenario the crash/fault space is enumerated completely (every mutating fs operation x {kill before, kill after, kill mid-write, ENOSPC with partial write, EIO} + read faults); scenarios ({compress,decompress} x {xz,lzma} x subsets of -k/-f/-c x names with spaces/known/unknown suffix/.txz/.tlz x valid/truncated/damaged/garbage input, .lzma inputs with data behind the stream, contents ending in 32-64 KiB of zeros, operand a symbolic link incl. one whose referent carries the target name, operand with a second hard link, existing target incl. a symbolic link (dangling, to a file, back to the operand) under the target name, stale temp file, bystander file, operand names that read like option values) are sampled. Invariants: the data exists in one complete form at every kill instant and after every run; failing runs exit non-zero, leave the input untouched, nothing partial under the target name; no temporary file after a non-killed run.",
   note="Process-kill semantics (completed operations durable), not power loss. simos stands for the kernel (flat namespace, modes, umask, symbolic links, O_EXCL, atomic rename) and is validated against the real kernel on every run: sampled scenarios are repeated with the really built gxz binary in a real directory under tools/ptstep (ptrace; file-system changing system calls numbered over all threads) - fault-free call sequence == simulated operation log, and the same kill / ENOSPC / EIO plan index must leave exactly the simulated tree, status and stdout; real SIGINT runs are judged by the invariants. A disagreement is exit 2 (simulator fidelity), never a violation. gxz's flag set/logger/os are process-global, so the batch is sharded over 16 child processes, one simulation at a time each."),
 "C15": dict(engine="gxzsim", cat="exploration", ref="DESIGN.md §4 C15, §2.6",
   technique="deterministic simulation of gxz invocation histories on a simulated directory (unmodified main() in-process over the simulated os), compared after every invocation with an executable model of the documented command line; outputs judged by independent decoders and liblzma, compressed inputs from liblzma / reference encoders",
   text="Seeded exploration of directory states x histories of 1-3 invocations x argument vectors (all listed flags, long/bundled forms, '--', operands before options, 0-3 operands with failing members, mixed formats under auto-detection, odd names). Operands include '-' among files, symbolic links (followed only with -f), directories, and a file left under the temporary output name. Compared: exit status class, resulting tree (names, modes, link targets, contents: decompressed exact, compressed by reference decoding), stdout.",
   note="The simulated OS is validated against the real kernel on every run (fault-free histories repeated with the really built binary; byte-for-byte equal trees, status, stdout). The model encodes the documented semantics and the xz-utils conventions the property names; stderr is not compared. File names include ones that read like option values (1, true, 2024), names of 230-254 bytes (the file system's limit of 255 is simulated; one known finding, see known-findings.json), hard-linked operands, symbolic links under the target name and known suffixes contradicting the content."),

 "C14": dict(engine="conc", cat="exploration", ref="DESIGN.md §4 C14",
   technique="deterministic simulation of N caller tasks (each owning its own xz/LZMA/LZMA2 writer or reader) under a seeded lock-step scheduler that decides at every API call and every sink/source call which task proceeds - replayable, shrinkable schedules - with each task's complete observable result compared to its solo run; plus the same task sets run unsynchronised in a binary built with the Go race detector",
   text="(a) Lock-step simulation is the deciding step for interference through state that survives an API or I/O boundary: exactly one task runs at a time, the seed picks the next; results (sink image / delivered bytes, every call's n and err) must equal the solo results, solo runs must repeat byte-identically, identical tasks must produce identical bytes. Every lock-step case runs in a fresh process of its own; cases contain identical tasks, sibling tasks (one configuration value nudged), tasks that build their configuration through Verify(), tasks with configurations the library must refuse, writer tasks that re-tune one Properties value of the caller right before creating their writer, reader tasks that must fail (wrong size in a .lzma header: the error text is part of the result), and readers that read on after EOF; a third of the cases also compare every task with a run alone in a fresh process. (b) The race-detector half observes runtime-chosen schedules (monitoring, labelled as such in evidence) because lock-step parking would blind the detector: task sets released together by a spinning barrier in 8 long-lived -race processes, plus 64 (thorough: 800) short-lived -race processes that each run one case of identical short tasks as the very first use of the library (races on state that is written once per process).",
   note="No yield points inside codec inner loops (no hook in /repo). A race report is attributed to the last task set started (one case at a time in the race child)."),
}

NOT_APPLICABLE = {
 "C17": "compression effectiveness: output length is a pure function of (input, configuration) - the statement even fixes 'without intermediate Flush'; no schedule, clock, fault, crash point or history for a simulator to own. Measuring sizes on generated inputs would be plain input generation, not deterministic simulation.",
 "C18": "dictionary-size code: pure arithmetic over a finite domain (2^32-1 capacities, 256 codes); the deciding method would be exhaustive evaluation, i.e. enumeration of a bounded space, not simulation. No nondeterminism, I/O, fault or history enters the statement.",
}
PENDING = "check not built yet in this session; planned per DESIGN.md §4 (will be claimed once its engine runs clean on the unchanged tree)"

def main():
    props = [json.loads(l)["id"] for l in open(os.path.join(HERE, "properties.jsonl"))]
    checks = []
    for pid in props:
        c = CHECKS.get(pid)
        if not c: continue
        checks.append({
            "property_id": pid,
            "quick_cmd": f"./check {pid} quick",
            "thorough_cmd": f"./check {pid} thorough",
            "evidence_file": f"/verif/evidence/{pid}.json",
            "replay_cmd_template": "./check replay {path}",
            "engine": c["engine"],
            "level_claimed": {"category": c["cat"], "text": c["text"], "design_ref": c["ref"]},
            "level_note": c["note"],
            "technique": c["technique"],
        })
    na = []
    for pid in props:
        if pid in CHECKS: continue
        na.append({"property_id": pid, "reason": NOT_APPLICABLE.get(pid, PENDING)})
    engines = {}
    for pid, c in CHECKS.items():
        engines.setdefault(c["engine"], []).append(pid)
    m = {
        "version": 1,
        "setup_cmd": "./setup.sh",
        "hooks": {
            "guard": "verif",
            "enable": "no hook exists in /repo: the library is driven through the io.Writer/io.Reader arguments it already takes; gxz is simulated from a scratch copy whose os, os/signal and internal/term imports are redirected (DESIGN.md §2.6). Build tag 'verif' is reserved and unused.",
            "baseline_off_cmd": "cd /repo && GOFLAGS=-mod=mod GOPROXY=off GOSUMDB=off GOTOOLCHAIN=local go test -vet=off -count=1 ./...",
            "source_commits": [],
            "add_only": True,
        },
        "engines": [{"name": e, "path": "/verif/checks", "serves_properties": sorted(p), "kind_free_text": "deterministic simulation engine, see DESIGN.md §2"} for e, p in sorted(engines.items())],
        "checks": checks,
        "not_applicable": na,
        "notes": "Exit codes of every command: 0 held, 1 VIOLATION (with replay file), 2 infrastructure trouble (build, watchdog, oracle disagreement) - never reported as a violation. Known findings: /verif/known-findings.json.",
    }
    json.dump(m, open(os.path.join(HERE, "MANIFEST.json"), "w"), indent=1)
    print("wrote MANIFEST.json:", len(checks), "checks,", len(na), "not claimed")

if __name__ == "__main__":
    main()
