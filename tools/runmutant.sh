#!/bin/bash
# usage: runmutant.sh <patch.diff> <check ids...>    applies the patch to /repo, runs the quick checks, reverts.
# Prints one line per check: <id> exit=<code> <last line>.
patch="$1"; shift
cd /verif || exit 2
[ -z "$(git -C /repo status --porcelain)" ] || { echo "/repo not clean"; exit 2; }
git -C /repo apply "$patch" || { echo "patch does not apply"; exit 2; }
trap 'git -C /repo checkout -- . ; git -C /repo clean -fdq' EXIT
for id in "$@"; do
	out=$(VERIF_EVIDENCE_SUFFIX=.mutant ./check "$id" quick 2>&1); rc=$?
	echo "$id exit=$rc $(echo "$out" | grep -m1 -A1 VIOLATION | tr '\n' ' ' | cut -c1-330)"
	[ $rc = 0 ] && echo "   $(echo "$out" | tail -1 | cut -c1-160)"
done
rm -f /verif/evidence/*.mutant
