#!/usr/bin/env python3
"""mutsweep.py - mechanical sensitivity measurement (complements the independently written seeded changes).

Phase 1: every single-token mutant of the repository listed by bin/mutgen is built and run against the
         repository's own test suite in a scratch worktree. Mutants that do not build or that the suite kills
         are of no interest: the checks are there for what the suite cannot see.
Phase 2: every survivor (or a seeded sample of them) is put before the quick checks responsible for the file it
         sits in, with a reduced run count, one check after the other until one reports a VIOLATION.
Output:  <out>/phase1.jsonl, <out>/phase2.jsonl and a summary; undetected survivors are listed for triage
         (many are equivalent mutants: dead code, debug strings, performance-only paths).

usage: mutsweep.py [--out DIR] [--workers N] [--sample N] [--seed S] [--phase 1|2|all] [--files REGEX]
Scratch worktrees live under /var/tmp and are removed at the end. /repo itself is never modified.
"""
import argparse, json, os, random, re, shutil, subprocess, sys, tempfile, threading, time, queue

V = os.path.dirname(os.path.dirname(os.path.abspath(__file__)))
ENV = dict(os.environ, GOFLAGS="-mod=mod", GOPROXY="off", GOSUMDB="off", GOTOOLCHAIN="local")
DIRS = [".", "lzma", "cmd/gxz", "internal/gflag", "internal/term"]

# which checks look at which file (first match wins; order = most specific check first)
ROUTES = [
    (r"^cmd/gxz/|^internal/(gflag|term)/", ["C15", "C10"]),
    (r"^(reader|lzmafilter)\.go$", ["C03", "C12", "C05", "C04", "C13", "C09", "C11"]),
    (r"^format\.go$|^bits\.go$|^crc\.go$|^none-check\.go$", ["C02", "C04", "C03", "C05", "C11", "C12"]),
    (r"^writer\.go$", ["C01", "C02", "C09", "C14"]),
    (r"^lzma/(encoder|encoderdict|hashtable|bintree|writer|writer2|bytewriter|matchalgorithm|operation)\.go$", ["C01", "C08", "C06", "C02", "C16", "C09"]),
    (r"^lzma/(decoder|decoderdict|reader|reader2|breader)\.go$", ["C03", "C07", "C13", "C16", "C05", "C11", "C09"]),
    (r"^lzma/header2\.go$", ["C16", "C03", "C02", "C08", "C11", "C05"]),
    (r"^lzma/(header|properties)\.go$", ["C06", "C07", "C15", "C05", "C11"]),
    (r"^lzma/", ["C07", "C03", "C01", "C08", "C06", "C02", "C11"]),
]
RUNS = {"C01": 6000, "C02": 6000, "C03": 6000, "C04": 120, "C05": 250, "C06": 12000, "C07": 12000, "C08": 6000,
        "C09": 120, "C10": 400, "C11": 40000, "C12": 8000, "C13": 8000, "C14": 500, "C15": 4000, "C16": 6000}


def sh(cmd, cwd=None, env=None, timeout=None):
    try:
        p = subprocess.run(cmd, cwd=cwd, env=env or ENV, capture_output=True, text=True, timeout=timeout)
        return p.returncode, p.stdout + p.stderr
    except subprocess.TimeoutExpired as e:
        return 124, (e.stdout or b"").decode(errors="replace") if isinstance(e.stdout, bytes) else (e.stdout or "")


class Worktree:
    def __init__(self):
        self.dir = tempfile.mkdtemp(prefix="verif-msw.", dir="/var/tmp")
        os.rmdir(self.dir)
        rc, out = sh(["git", "-C", "/repo", "worktree", "add", "-q", "--detach", self.dir, "HEAD"])
        if rc:
            raise RuntimeError(out)
        self.mod = os.path.join(self.dir, ".verif-go.mod")
        open(self.mod, "w").write(open(os.path.join(V, "go.mod")).read().replace("=> /repo", "=> " + self.dir))
        if os.path.exists(os.path.join(V, "go.sum")):
            shutil.copy(os.path.join(V, "go.sum"), os.path.join(self.dir, ".verif-go.sum"))

    def apply(self, m):
        p = os.path.join(self.dir, m["file"])
        self.orig = (p, open(p, "rb").read())
        b = self.orig[1]
        open(p, "wb").write(b[:m["start"]] + m["repl"].encode() + b[m["end"]:])

    def restore(self):
        open(self.orig[0], "wb").write(self.orig[1])

    def close(self):
        sh(["git", "-C", "/repo", "worktree", "remove", "--force", self.dir])
        shutil.rmtree(self.dir, ignore_errors=True)


def phase1(muts, out, workers):
    done = {}
    path = os.path.join(out, "phase1.jsonl")
    if os.path.exists(path):
        for l in open(path):
            j = json.loads(l)
            done[j["key"]] = j
    q = queue.Queue()
    for m in muts:
        if m["key"] not in done:
            q.put(m)
    lock = threading.Lock()
    f = open(path, "a")

    def work():
        wt = Worktree()
        try:
            while True:
                try:
                    m = q.get_nowait()
                except queue.Empty:
                    return
                wt.apply(m)
                rc, o = sh(["go", "build", "./..."], cwd=wt.dir, timeout=300)
                res = "nobuild"
                if rc == 0:
                    rc, o = sh(["go", "test", "-vet=off", "-count=1", "-timeout", "120s", "./..."], cwd=wt.dir, timeout=400)
                    res = "survived" if rc == 0 else "killed-by-suite"
                wt.restore()
                m2 = dict(m, result=res)
                with lock:
                    f.write(json.dumps(m2) + "\n")
                    f.flush()
                    done[m["key"]] = m2
        finally:
            wt.close()

    ts = [threading.Thread(target=work) for _ in range(workers)]
    [t.start() for t in ts]
    [t.join() for t in ts]
    return done


def route(file):
    for pat, ids in ROUTES:
        if re.search(pat, file):
            return ids
    return []


ALL_LIB = ["C01", "C02", "C03", "C04", "C05", "C06", "C07", "C08", "C09", "C11", "C12", "C13", "C14", "C16"]


def phase2(surv, out, workers, name="phase2", router=None, full=False):
    router = router or route
    done = {}
    path = os.path.join(out, name + ".jsonl")
    if os.path.exists(path):
        for l in open(path):
            j = json.loads(l)
            done[j["key"]] = j
    q = queue.Queue()
    for m in surv:
        if m["key"] not in done:
            q.put(m)
    lock = threading.Lock()
    f = open(path, "a")
    per = max(2, 16 // workers)

    def work():
        wt = Worktree()
        try:
            while True:
                try:
                    m = q.get_nowait()
                except queue.Empty:
                    return
                wt.apply(m)
                verdict, by, tail = "undetected", "", ""
                for cid in router(m["file"]):
                    env = dict(ENV, VERIF_REPO=wt.dir, VERIF_GOFLAGS="-modfile=" + wt.mod, VERIF_BIN=os.path.join(wt.dir, ".verif-bin"),
                               VERIF_EVIDENCE_SUFFIX=".msw", VERIF_WORKERS=str(per), VERIF_C14_SKIP_RACE="1")
                    if not full:
                        env["VERIF_RUNS"] = str(RUNS[cid])
                    rc, o = sh([os.path.join(V, "check"), cid, "quick"], cwd=V, env=env, timeout=1500)
                    last = [l for l in o.splitlines() if l.strip()][-3:]
                    if rc == 1:
                        vl = [l for l in o.splitlines() if "class=" in l]
                        verdict, by, tail = "detected", cid, (vl[0].strip() if vl else "")[:300]
                        break
                    if rc != 0:
                        # machinery trouble under a mutant: a hang caught by the watchdog, a build problem of the
                        # simulated gxz, an oracle disagreement. Not a verdict; recorded and the next check is tried.
                        tail = f"{cid} exit={rc} " + " | ".join(last)[:300]
                        if "deadline" in o or rc == 124:
                            verdict, by = "timeout", cid
                            break
                wt.restore()
                m2 = dict(m, verdict=verdict, by=by, tail=tail)
                with lock:
                    f.write(json.dumps(m2) + "\n")
                    f.flush()
                    done[m["key"]] = m2
        finally:
            wt.close()
            for e in os.listdir(os.path.join(V, "evidence")):
                if e.endswith(".msw"):
                    try:
                        os.remove(os.path.join(V, "evidence", e))
                    except OSError:
                        pass

    ts = [threading.Thread(target=work) for _ in range(workers)]
    [t.start() for t in ts]
    [t.join() for t in ts]
    return done


def main():
    ap = argparse.ArgumentParser()
    ap.add_argument("--out", default="/var/tmp/mutsweep")
    ap.add_argument("--workers", type=int, default=8)
    ap.add_argument("--sample", type=int, default=0)
    ap.add_argument("--seed", type=int, default=1)
    ap.add_argument("--phase", default="all")
    ap.add_argument("--files", default="")
    a = ap.parse_args()
    os.makedirs(a.out, exist_ok=True)
    gen = os.path.join(V, "bin", "mutgen")
    sh(["go", "build", "-o", gen, "./cmd/mutgen"], cwd=V)
    rc, o = sh([gen, "/repo"] + DIRS)
    muts = [json.loads(l) for l in o.splitlines() if l.startswith("{")]
    muts = [m for m in muts if not m["file"].endswith("example.go") and (not a.files or re.search(a.files, m["file"]))]
    for m in muts:
        m["key"] = f'{m["file"]}:{m["start"]}:{m["repl"]}'
    print(f"{len(muts)} mutants", flush=True)
    p1 = phase1(muts, a.out, a.workers) if a.phase in ("1", "all") else {json.loads(l)["key"]: json.loads(l) for l in open(os.path.join(a.out, "phase1.jsonl"))}
    # results recorded for an earlier state of a file (offsets have moved since) are not used
    cur = {m["key"] for m in muts}
    p1 = {k: v for k, v in p1.items() if k in cur}
    from collections import Counter
    c1 = Counter(v["result"] for v in p1.values())
    print("phase 1:", dict(c1), flush=True)
    if a.phase == "1":
        return
    if a.phase == "3":
        a.phase = "3"
    surv = sorted((v for v in p1.values() if v["result"] == "survived"), key=lambda m: m["key"])
    if a.sample and a.sample < len(surv):
        random.Random(a.seed).shuffle(surv)
        surv = sorted(surv[:a.sample], key=lambda m: m["key"])
    print(f"phase 2 on {len(surv)} survivors", flush=True)
    p2 = phase2(surv, a.out, max(1, a.workers // 2))
    sel = [p2[m["key"]] for m in surv if m["key"] in p2]
    c2 = Counter(v["verdict"] for v in sel)
    print("phase 2:", dict(c2))
    print("detected by:", dict(Counter(v["by"] for v in sel if v["verdict"] == "detected")))
    und = [v for v in sel if v["verdict"] == "undetected"]
    if a.phase in ("3", "all") and und:
        # second pass for the undetected ones: every check the first route did not name
        def rest(f):
            first = route(f)
            pool = ["C10", "C15"] if re.search(r"^cmd/gxz/|^internal/(gflag|term)/", f) else ALL_LIB
            return [c for c in pool if c not in first]
        print(f"phase 3 on {len(und)} undetected survivors", flush=True)
        p3 = phase2([{k: v[k] for k in ("file", "start", "end", "repl", "desc", "line", "func", "key")} for v in und], a.out, max(1, a.workers // 2), "phase3", lambda f: route(f) + rest(f), True)
        for v in und:
            w = p3.get(v["key"])
            if w and w["verdict"] != "undetected":
                v["verdict"], v["by"], v["tail"] = w["verdict"], w["by"], w["tail"]
        c3 = Counter(v["verdict"] for v in und)
        print("phase 3:", dict(c3))
        und = [v for v in und if v["verdict"] == "undetected"]
    json.dump({"mutants": len(muts), "phase1": dict(c1), "survivors_examined": len(sel), "phase2": dict(c2), "undetected": und},
              open(os.path.join(a.out, "summary.json"), "w"), indent=1)
    for v in und:
        print(f'UNDETECTED {v["file"]}:{v["line"]} {v["func"]}: {v["desc"]}   {v["tail"]}')


if __name__ == "__main__":
    main()
