#!/bin/bash
# usage: trymutant.sh <patch.diff> <check ids...>
# Applies the patch to a scratch worktree of /repo HEAD (never to /repo itself, so background sweeps that
# build from /repo are not disturbed), builds each quick check against that worktree into its own bin
# directory and prints one line per check: <id> DETECTED|MISSED ...
cd "$(dirname "$0")/.." || exit 2
V="$(pwd)"; patch="$(readlink -f "$1")"; shift
wt=$(mktemp -d /var/tmp/verif-mut.XXXXXX); rmdir "$wt"
git -C /repo worktree add -q --detach "$wt" HEAD || { echo "cannot create worktree"; exit 2; }
trap 'git -C /repo worktree remove --force "$wt" 2>/dev/null; rm -rf "$wt"' EXIT
git -C "$wt" apply "$patch" || { echo "PATCH DOES NOT APPLY"; exit 2; }
mf="$wt/.verif-go.mod"; sed "s#=> /repo#=> $wt#" "$V/go.mod" > "$mf"; cp "$V/go.sum" "$wt/.verif-go.sum" 2>/dev/null
for id in "$@"; do
	out=$(VERIF_REPO="$wt" VERIF_GOFLAGS="-modfile=$mf" VERIF_BIN="$wt/.verif-bin" VERIF_EVIDENCE_SUFFIX=.mutant VERIF_REPLAY_DIR="$wt/.replays" ./check "$id" ${TIER:-quick} 2>&1); rc=$?
	if [ $rc = 1 ]; then echo "$id DETECTED $(echo "$out" | grep -m1 -A1 VIOLATION | tr '\n' ' ' | cut -c1-300)"
	else echo "$id MISSED exit=$rc $(echo "$out" | tail -1 | cut -c1-200)"; fi
done
rm -f "$V"/evidence/*.mutant
