#!/usr/bin/env python3
"""verify_claims.py [id-glob]: runs every (seeded change, check) pair named in meta.json's detected_by against a
scratch worktree (tools/trymutant.sh) and drops pairs that are not detected from the list. Prints what it did."""
import json, glob, subprocess, sys, os
V = os.path.dirname(os.path.dirname(os.path.abspath(__file__)))
pat = sys.argv[1] if len(sys.argv) > 1 else "*"
for m in sorted(glob.glob(f"{V}/seeded/{pat}/meta.json")):
    j = json.load(open(m))
    own = j["breaks_property"]
    ids = j["checks_run"]["detected_by"]
    extra = [i for i in ids if i != own]
    if not extra:
        continue
    out = subprocess.run([f"{V}/tools/trymutant.sh", os.path.dirname(m) + "/patch.diff"] + extra, capture_output=True, text=True).stdout
    keep = [own]
    for i in extra:
        ok = any(l.startswith(i + " DETECTED") for l in out.splitlines())
        print(j["id"], i, "DETECTED" if ok else "not detected -> dropped")
        if ok:
            keep.append(i)
    if keep != ids:
        j["checks_run"]["detected_by"] = keep
        json.dump(j, open(m, "w"), indent=1)
