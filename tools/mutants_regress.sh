#!/bin/bash
# Regression over the stored seeded changes: every /verif/seeded/<id>/patch.diff is applied to a scratch
# worktree of /repo HEAD (never to /repo), the quick check of the property it breaks is built against that
# worktree into its own bin directory, and must exit 1. Usage: mutants_regress.sh [ids...]   (default: all)
cd "$(dirname "$0")/.." || exit 2
V="$(pwd)"
ids=("$@"); [ ${#ids[@]} -eq 0 ] && ids=($(ls seeded | grep -v go.mod))
miss=0
for id in "${ids[@]}"; do
	d="$V/seeded/$id"; [ -f "$d/patch.diff" ] || continue
	prop=$(sed -n 's/.*"breaks_property": *"\([^"]*\)".*/\1/p' "$d/meta.json")
	wt=$(mktemp -d /var/tmp/verif-mut.XXXXXX); rmdir "$wt"
	git -C /repo worktree add -q --detach "$wt" HEAD || { echo "$id: cannot create worktree"; continue; }
	if ! git -C "$wt" apply "$d/patch.diff"; then echo "$id: PATCH DOES NOT APPLY (repo moved on?)"; git -C /repo worktree remove --force "$wt"; continue; fi
	mf="$wt/.verif-go.mod"; sed "s#=> /repo#=> $wt#" "$V/go.mod" > "$mf"; cp "$V/go.sum" "$wt/.verif-go.sum" 2>/dev/null
	out=$(VERIF_REPO="$wt" VERIF_GOFLAGS="-modfile=$mf" VERIF_BIN="$wt/.verif-bin" VERIF_EVIDENCE_SUFFIX=.mutant ./check "$prop" quick 2>&1); rc=$?
	line=$(echo "$out" | grep -m1 -A1 VIOLATION | tr '\n' ' ' | cut -c1-200)
	if [ $rc = 1 ]; then echo "$id $prop DETECTED $line"; else echo "$id $prop MISSED exit=$rc $(echo "$out" | tail -1 | cut -c1-160)"; miss=$((miss+1)); fi
	git -C /repo worktree remove --force "$wt"; rm -rf "$wt"
done
rm -f "$V"/evidence/*.mutant
echo "missed: $miss"
[ $miss = 0 ]
