#!/usr/bin/env python3
"""Rewrites the table of seeded changes in DESIGN.md (between the seeded-table markers) from seeded/*/meta.json."""
import json, glob, re, os
V = os.path.dirname(os.path.dirname(os.path.abspath(__file__)))
rows = []
for m in sorted(glob.glob(V + "/seeded/*/meta.json")):
    j = json.load(open(m))
    what = j["what"].replace("|", "/").replace("\n", " ")
    rows.append(f"| {j['id']} | {j['breaks_property']} | {what} | {', '.join(j['checks_run']['detected_by'])} |")
table = "| seeded change | breaks | what it does (and, where it applies, why it was missed at first) | detected by (quick) |\n|---|---|---|---|\n" + "\n".join(rows) + "\n"
p = V + "/DESIGN.md"
s = open(p).read()
a, b = "<!-- seeded-table-begin -->\n", "<!-- seeded-table-end -->"
i, k = s.index(a) + len(a), s.index(b)
open(p, "w").write(s[:i] + table + s[k:])
print(len(rows), "rows")
