package gxzsim

import (
	"bytes"
	"fmt"
	"os"
	"os/exec"
	"path/filepath"
	"sort"
	"syscall"

	"verif/sim"
	"verif/sim/simos"
)

// fidelityPass validates the simulated operating system against the real
// kernel: fault-free C15 scenarios are run with the really built gxz binary in
// a real scratch directory, and exit status, resulting tree (names, contents,
// permission bits) and stdout must equal the simulated outcome byte for byte
// (same code, deterministic compression). A disagreement is a fidelity failure
// of the simulator: exit 2 with a diagnostic, never a VIOLATION.
func fidelityPass(tier string, seed uint64, cov map[string]any) (int, []string) {
	bin := filepath.Join(sim.BinDir(), "gxz-real")
	if _, err := os.Stat(bin); err != nil {
		cov["stub_fidelity"] = "not run: bin/gxz-real missing"
		return 0, []string{"note: real-binary fidelity pass skipped (bin/gxz-real missing)"}
	}
	n := 60
	if tier == "thorough" {
		n = 3000
	}
	base := os.Getenv("TMPDIR")
	if base == "" {
		base = "/var/tmp"
	}
	root, err := os.MkdirTemp(base, "verif-fidelity-")
	if err != nil {
		return 2, []string{"INFRA: " + err.Error()}
	}
	defer os.RemoveAll(root)
	if bin, err = stageBinary(bin, root); err != nil {
		return 2, []string{"INFRA: " + err.Error()}
	}
	old := syscall.Umask(0o022)
	defer syscall.Umask(old)
	compared, invocations, skipped := 0, 0, 0
	for i := 0; i < n; i++ {
		rs := sim.Mix(seed, sim.Tag("fidelity"), uint64(i))
		c := genC15(sim.NewRng(rs), "quick", i)
		if !fidelityEligible(c) {
			skipped++
			continue
		}
		dir := filepath.Join(root, fmt.Sprintf("s%d", i))
		if err := os.Mkdir(dir, 0o755); err != nil {
			return 2, []string{"INFRA: " + err.Error()}
		}
		w := buildWorld(c)
		var stdin []byte
		if nd := w.Get("\x00stdin"); nd != nil {
			stdin = nd.Data
			w.Stdin = nd.Data
			delete(w.Nodes, "\x00stdin")
		}
		first := map[*simos.Node]string{}
		for _, name := range w.Names() {
			nd := w.Get(name)
			p := filepath.Join(dir, name)
			if q, ok := first[nd]; ok {
				if err := os.Link(q, p); err != nil {
					return 2, []string{"INFRA: " + err.Error()}
				}
				continue
			}
			first[nd] = p
			if nd.Mode&os.ModeSymlink != 0 {
				if err := os.Symlink(nd.Target, p); err != nil {
					return 2, []string{"INFRA: " + err.Error()}
				}
				continue
			}
			if nd.Mode&os.ModeDir != 0 {
				if err := os.Mkdir(p, 0o755); err != nil {
					return 2, []string{"INFRA: " + err.Error()}
				}
				continue
			}
			if err := os.WriteFile(p, nd.Data, 0o600); err != nil {
				return 2, []string{"INFRA: " + err.Error()}
			}
			if err := os.Chmod(p, nd.Mode); err != nil {
				return 2, []string{"INFRA: " + err.Error()}
			}
		}
		for ri := range c.Runs {
			args := c.Runs[ri].Args()
			w.Stdin = append([]byte(nil), stdin...)
			sres := invoke(w, args)
			handOver(dir)
			cmd := exec.Command(bin, args...)
			cmd.Dir = dir
			cmd.Env = append(os.Environ(), "GOGC=off")
			if dropPrivileges() {
				cmd.SysProcAttr = &syscall.SysProcAttr{Credential: &syscall.Credential{Uid: unprivUID, Gid: unprivUID}}
			}
			cmd.Stdin = bytes.NewReader(stdin)
			var so, se bytes.Buffer
			cmd.Stdout, cmd.Stderr = &so, &se
			// the kind of object behind standard output is part of the scenario
			var outFile *os.File
			switch c.StdoutKind {
			case "devnull":
				outFile, _ = os.OpenFile(os.DevNull, os.O_WRONLY, 0)
			case "file":
				outFile, _ = os.CreateTemp(root, "stdout-")
			}
			if outFile != nil {
				cmd.Stdout = outFile
			}
			rerr := cmd.Run()
			if outFile != nil {
				if c.StdoutKind == "file" {
					b, _ := os.ReadFile(outFile.Name())
					so.Write(b)
					os.Remove(outFile.Name())
				} else {
					so.Write(sres.Stdout) // nothing to compare: /dev/null keeps no bytes
				}
				outFile.Close()
			}
			rexit := 0
			if ee, ok := rerr.(*exec.ExitError); ok {
				rexit = ee.ExitCode()
			} else if rerr != nil {
				return 2, []string{"INFRA: running the real gxz: " + rerr.Error()}
			}
			invocations++
			diag := func(what string) (int, []string) {
				return 2, []string{
					fmt.Sprintf("INFRA: simulator fidelity: %s (scenario %d run %d, gxz %q)", what, i, ri, args),
					fmt.Sprintf("  simulated: exit=%d names=%q stderr=%q", sres.Exit, w.Names(), firstLine(sres.Stderr)),
					fmt.Sprintf("  real:      exit=%d names=%q stderr=%q", rexit, realNames(dir), firstLine(se.Bytes())),
				}
			}
			if sres.Panicked != "" {
				return diag("simulated gxz panicked: " + sres.Panicked)
			}
			if sres.Exit != rexit {
				return diag("exit status differs")
			}
			if !bytes.Equal(sres.Stdout, so.Bytes()) {
				return diag(fmt.Sprintf("stdout differs (%d vs %d bytes)", len(sres.Stdout), so.Len()))
			}
			rn := realNames(dir)
			sn := w.Names()
			if fmt.Sprint(rn) != fmt.Sprint(sn) {
				return diag("resulting file names differ")
			}
			for _, name := range sn {
				nd := w.Get(name)
				if li, lerr := os.Lstat(filepath.Join(dir, name)); lerr != nil || li.Mode()&(os.ModeSymlink|os.ModeDir) != nd.Mode&(os.ModeSymlink|os.ModeDir) {
					return diag(fmt.Sprintf("file type of %q differs (simulated %v)", name, nd.Mode))
				}
				if nd.Mode&os.ModeSymlink != 0 {
					if t, _ := os.Readlink(filepath.Join(dir, name)); t != nd.Target {
						return diag(fmt.Sprintf("link %q points to %q, simulated %q", name, t, nd.Target))
					}
					continue
				}
				if nd.Mode&os.ModeDir != 0 {
					continue
				}
				b, err := os.ReadFile(filepath.Join(dir, name))
				if err != nil {
					return diag("cannot read real file " + name + ": " + err.Error())
				}
				if !bytes.Equal(b, nd.Data) {
					return diag(fmt.Sprintf("content of %q differs (%d vs %d bytes)", name, len(nd.Data), len(b)))
				}
				fi, _ := os.Stat(filepath.Join(dir, name))
				if fi.Mode().Perm() != nd.Mode.Perm() {
					return diag(fmt.Sprintf("mode of %q differs (simulated %o, real %o)", name, nd.Mode.Perm(), fi.Mode().Perm()))
				}
			}
			w = w.Clone()
		}
		compared++
		os.RemoveAll(dir)
	}
	cov["stub_fidelity"] = map[string]any{
		"what":               "fault-free scenarios run with the really built gxz binary in a real directory; exit status, file names, contents, permission bits and stdout must equal the simulated outcome byte for byte",
		"scenarios_compared": compared,
		"real_invocations":   invocations,
		"scenarios_skipped":  skipped,
		"skipped_because":    "unreadable files (the sandbox runs as root, which can read them) and special mode bits",
		"disagreements":      0,
	}
	return 0, []string{fmt.Sprintf("stub fidelity: %d scenarios / %d real invocations agree with the simulation byte for byte (%d skipped)", compared, invocations, skipped)}
}

// unprivUID is the uid/gid under which the real gxz binary runs when the
// harness itself is root: an unprivileged process cannot damage the machine
// (the pinned gxz unlinks /dev/stdout from its signal handler), and files
// without read permission are unreadable for it as they are in the simulation.
const unprivUID = 65534

// dropPrivileges reports whether real runs are done under unprivUID.
func dropPrivileges() bool { return os.Geteuid() == 0 }

// stageBinary copies the real gxz binary into the scratch root (mode 0755) so
// that the unprivileged process can execute it wherever bin/ lives.
func stageBinary(bin, root string) (string, error) {
	os.Chmod(root, 0o755)
	b, err := os.ReadFile(bin)
	if err != nil {
		return "", err
	}
	dst := filepath.Join(root, "gxz-real")
	if err := os.WriteFile(dst, b, 0o755); err != nil {
		return "", err
	}
	return dst, nil
}

// handOver gives a scenario directory and everything in it to unprivUID.
func handOver(dir string) {
	if !dropPrivileges() {
		return
	}
	ents, _ := os.ReadDir(dir)
	for _, e := range ents {
		os.Lchown(filepath.Join(dir, e.Name()), unprivUID, unprivUID)
	}
	os.Chown(dir, unprivUID, unprivUID)
}

func fidelityEligible(c *GCase) bool {
	for _, f := range c.Files {
		m := os.FileMode(f.Mode)
		if f.Kind == "symlink" || f.Kind == "dir" || f.Kind == "hardlink" {
			continue
		}
		if f.Name != "\x00stdin" && m&0o400 == 0 && !dropPrivileges() {
			return false // root reads unreadable files
		}
		if m&(os.ModeSetuid|os.ModeSetgid|os.ModeSticky) != 0 {
			return false
		}
	}
	return true
}

func realNames(dir string) []string {
	ents, _ := os.ReadDir(dir)
	var out []string
	for _, e := range ents {
		out = append(out, e.Name())
	}
	sort.Strings(out)
	return out
}

var _ = simos.NewWorld
