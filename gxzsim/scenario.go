// Package gxzsim simulates the gxz command: the unmodified main() of a scratch
// copy of cmd/gxz runs in-process, once per simulated invocation, on the
// simulated operating system verif/sim/simos. It holds the scenario model,
// the executable model of the documented command line (C15) and the data-loss
// invariants (C10).
package gxzsim

import (
	"bytes"
	"fmt"
	"os"
	"path"
	"sort"
	"strings"

	"verif/checks"
	"verif/ref/liblzma"
	"verif/ref/reflzma"
	"verif/ref/refxz"
	"verif/sim"
	"verif/sim/simos"
)

// FileSpec describes one file of the initial directory.
type FileSpec struct {
	Name string `json:"name"`
	Mode uint32 `json:"mode"` // os.FileMode bits
	// Kind: plain (Payload) | stream (valid compressed Stream) | cut (Stream
	// truncated to Cut bytes) | damaged (Stream with a seeded fault) | garbage
	// (Payload bytes that are no compressed file) | tailed (a .lzma stream with
	// bytes behind it, chosen by Seed) | symlink (Target) | hardlink
	// (a second name of the regular file Target)
	Kind    string               `json:"kind"`
	Payload *sim.Payload         `json:"payload,omitempty"`
	Stream  *checks.StreamRecipe `json:"stream,omitempty"`
	Cut     int                  `json:"cut,omitempty"`
	Seed    uint64               `json:"seed,omitempty"`
	Target  string               `json:"target,omitempty"`
}

// Inv is one gxz invocation in structured form.
type Inv struct {
	// AlsoD (compress runs with -z only): -d is given as well, before or after
	// -z (DAfterZ); "-z, --compress  force compression" wins in either order
	AlsoD      bool     `json:"also_d,omitempty"`
	DAfterZ    bool     `json:"d_after_z,omitempty"`
	Decompress bool     `json:"d,omitempty"`
	ZFlag      bool     `json:"z,omitempty"` // pass -z / --compress explicitly
	Keep       bool     `json:"k,omitempty"`
	Stdout     bool     `json:"c,omitempty"`
	Force      bool     `json:"f,omitempty"`
	Format     string   `json:"F,omitempty"` // "" | xz | lzma | alone | auto
	Preset     int      `json:"preset"`      // -1 = not given
	Quiet      int      `json:"q,omitempty"`
	Verbose    int      `json:"v,omitempty"`
	Long       bool     `json:"long,omitempty"`     // long option names
	Bundle     bool     `json:"bundle,omitempty"`   // bundle short boolean options
	DashDash   bool     `json:"dashdash,omitempty"` // "--" before the operands
	FilesFirst bool     `json:"files_first,omitempty"`
	Files      []string `json:"files"`
}

// Args renders the invocation as an argument vector (without argv[0]).
func (v *Inv) Args() []string {
	var opts []string
	var shorts string
	add := func(on bool, short byte, long string) {
		if !on {
			return
		}
		switch {
		case v.Long:
			opts = append(opts, "--"+long)
		case v.Bundle:
			shorts += string(short)
		default:
			opts = append(opts, "-"+string(short))
		}
	}
	add(v.Decompress || (v.AlsoD && v.ZFlag && !v.DAfterZ), 'd', "decompress")
	add(v.ZFlag, 'z', "compress")
	add(v.AlsoD && v.ZFlag && v.DAfterZ && !v.Decompress, 'd', "decompress")
	add(v.Keep, 'k', "keep")
	add(v.Stdout, 'c', "stdout")
	add(v.Force, 'f', "force")
	for i := 0; i < v.Quiet; i++ {
		add(true, 'q', "quiet")
	}
	for i := 0; i < v.Verbose; i++ {
		add(true, 'v', "verbose")
	}
	if v.Preset >= 0 {
		if v.Bundle && !v.Long {
			shorts += fmt.Sprint(v.Preset)
		} else {
			opts = append(opts, fmt.Sprintf("-%d", v.Preset))
		}
	}
	if shorts != "" {
		opts = append([]string{"-" + shorts}, opts...)
	}
	if v.Format != "" {
		if v.Long {
			opts = append(opts, "--format="+v.Format)
		} else {
			opts = append(opts, "-F", v.Format)
		}
	}
	var args []string
	files := v.Files
	switch {
	case v.DashDash:
		args = append(append(args, opts...), "--")
		args = append(args, files...)
	case v.FilesFirst:
		args = append(append(args, files...), opts...)
	default:
		args = append(append(args, opts...), files...)
	}
	return args
}

// GCase is a gxz scenario: initial directory, a history of invocations, and a
// fault plan for the last invocation.
type GCase struct {
	Files []FileSpec `json:"files"`
	Runs  []Inv      `json:"runs"`
	Plan  simos.Plan `json:"plan,omitempty"`
	TTY   bool       `json:"tty,omitempty"`
	// StdoutKind: pipe (default) | devnull | file - what the real IsTerminal
	// code is asked about; none of them is a terminal
	StdoutKind string `json:"stdout_kind,omitempty"`
	// Enumerate: C10 enumerates every kill and fault point of the last run.
	Enumerate bool `json:"enumerate,omitempty"`
	// Only restricts the enumeration to one plan index.
	HasOnly bool `json:"has_only,omitempty"`
	Only    int  `json:"only,omitempty"`
	// PartialSeed seeds mid-write and partial-write lengths.
	PartialSeed uint64 `json:"partial_seed,omitempty"`
	// FullSig: enumerate every interleaving of the signal handler's two steps
	// with the remaining operations of main instead of a handful.
	FullSig bool `json:"full_sig,omitempty"`
}

// fileBytes realises the content of a file spec.
func fileBytes(f *FileSpec) (data []byte, plain []byte, valid bool, format string) {
	switch f.Kind {
	case "plain", "garbage":
		b := f.Payload.Bytes()
		return b, b, f.Kind == "plain", ""
	case "stream", "cut", "damaged", "tailed":
		b := f.Stream.Build()
		if b.Err != nil {
			sim.Infra("cannot build input stream for %s: %v", f.Name, b.Err)
		}
		img := b.Stream
		switch f.Kind {
		case "cut":
			c := f.Cut
			if c >= len(img) {
				c = len(img) - 1
			}
			if c < 0 {
				c = 0
			}
			img = img[:c]
			return img, b.Content, false, b.Format
		case "tailed":
			// a complete stream with something behind it: a few arbitrary bytes,
			// zero bytes, or the stream once more (cat a.lzma b.lzma). The .lzma
			// format has no concatenation and no padding: what follows the stream
			// is data the decompressor does not account for, and removing the
			// input would lose it.
			r := sim.NewRng(f.Seed)
			img = append([]byte(nil), img...)
			switch r.Intn(3) {
			case 0:
				img = append(img, r.Bytes(r.Range(1, 20))...)
			case 1:
				img = append(img, make([]byte, r.Range(1, 8))...)
			default:
				img = append(img, b.Stream...)
			}
			return img, b.Content, false, b.Format
		case "damaged":
			r := sim.NewRng(f.Seed)
			img = append([]byte(nil), img...)
			// a fault the format must detect: flip a bit (streams carry a check);
			// in an archive of several streams (whose parts need not carry a
			// check) the fault goes where a later stream begins - its magic
			// bytes, or zero bytes that misalign it: detectable by any reader
			if len(b.PartEnds) > 1 {
				i := r.Intn(len(b.PartEnds) - 1)
				start := b.PartEnds[i]
				if i < len(f.Stream.Pads) {
					start += f.Stream.Pads[i]
				}
				if r.Bool() {
					img[start+r.Intn(6)] ^= 1 << uint(r.Intn(8))
				} else {
					img = append(append(append([]byte(nil), img[:start]...), make([]byte, r.Range(1, 3))...), img[start:]...)
				}
				ok := stillDecodes(img, b.Format, b.Content)
				return img, b.Content, ok, b.Format
			}
			p := r.Intn(len(img))
			img[p] ^= 1 << uint(r.Intn(8))
			ok := stillDecodes(img, b.Format, b.Content)
			return img, b.Content, ok, b.Format
		}
		return img, b.Content, true, b.Format
	}
	return nil, nil, false, ""
}

// stillDecodes reports whether a damaged image still decodes to the same
// content under the reference decoders (harmless damage).
func stillDecodes(img []byte, format string, content []byte) bool {
	switch format {
	case "xz":
		f, err := refxz.Parse(img, false)
		return err == nil && bytes.Equal(f.Content, content)
	case "lzma":
		r, err := reflzma.DecodeAlone(img, false)
		return err == nil && bytes.Equal(r.Out, content)
	}
	return false
}

// buildWorld creates the initial world of a case.
func buildWorld(c *GCase) *simos.World {
	w := simos.NewWorld()
	w.TTY = c.TTY
	w.StdoutKind = c.StdoutKind
	for i := range c.Files {
		f := &c.Files[i]
		if len(path.Base(f.Name)) > simos.NameMax {
			continue // no file system holds such a name: the file does not exist
		}
		switch f.Kind {
		case "symlink":
			w.Symlink(f.Name, f.Target)
		case "dir":
			w.Nodes[f.Name] = &simos.Node{Mode: os.ModeDir | 0o755}
		case "hardlink":
			// second pass: the file it names may come later in the list
		default:
			data, _, _, _ := fileBytes(f)
			w.Put(f.Name, data, os.FileMode(f.Mode))
		}
	}
	for i := range c.Files {
		if f := &c.Files[i]; f.Kind == "hardlink" && len(path.Base(f.Name)) <= simos.NameMax {
			w.Link(f.Name, f.Target) // a second name of the regular file Target
		}
	}
	return w
}

// RunResult is the outcome of one simulated invocation.
type RunResult struct {
	Exit     int
	Killed   bool
	Panicked string
	Stdout   []byte
	Stderr   []byte
	World    *simos.World
}

var gxzMain func()

// invoke runs main() once on the world.
func invoke(w *simos.World, args []string) (res RunResult) {
	simos.SetWorld(w)
	w.BeginInvocation()
	simos.Args = append([]string{"gxz"}, args...)
	w.Stdout, w.Stderr = nil, nil
	func() {
		defer func() {
			if r := recover(); r != nil {
				switch p := r.(type) {
				case simos.ExitPanic:
					res.Exit = p.Code
				case simos.Killed:
					res.Killed = w.Dead
					if !w.Dead && w.Exited {
						res.Exit = w.Code
					}
				default:
					if ie, ok := r.(sim.InfraError); ok {
						panic(ie)
					}
					res.Panicked = fmt.Sprint(r)
					res.Exit = 2
				}
			}
		}()
		gxzMain()
	}()
	res.Stdout, res.Stderr, res.World = w.Stdout, w.Stderr, w
	return res
}

// ---- executable model of the documented command line ----

// fsState is the model's view of the directory: name -> (content, mode).
type mfile struct {
	data []byte
	mode os.FileMode
	link string
}
type fsState map[string]*mfile

func stateOf(w *simos.World) fsState {
	s := fsState{}
	for _, n := range w.Names() {
		nd := w.Get(n)
		s[n] = &mfile{data: nd.Data, mode: nd.Mode, link: nd.Target}
	}
	return s
}

func (s fsState) clone() fsState {
	c := fsState{}
	for k, v := range s {
		cp := *v
		c[k] = &cp
	}
	return c
}

// Expect is what the model says about one operand.
type Expect struct {
	Operand  string
	Fail     bool
	Why      string
	Target   string // "" when the output goes to stdout or the operand fails
	ToStdout bool
	// Compress: the output must decode to Plain; Decompress: the output is Plain.
	Compress    bool
	Format      string // xz | lzma
	Plain       []byte
	OutMode     os.FileMode // upper bound of the output's permission bits
	RemoveInput bool
}

var knownExt = map[string][2]string{"xz": {".xz", ".txz"}, "lzma": {".lzma", ".tlz"}}

// sniff decides the format of compressed content from the bytes, with the
// format definitions (xz: 6 magic bytes + valid stream flags + CRC32;
// .lzma: plausible 13-byte header as documented for gxz).
func sniff(data []byte) string {
	if len(data) >= 12 && data[6] == 0 && refxz.CheckSize(data[7]) >= 0 && bytes.Equal(data[:12], refxz.StreamHeader(data[7])) {
		return "xz"
	}
	if len(data) >= 13 {
		if h, err := reflzma.ParseAloneHeader(data); err == nil {
			ds := h.DictSize
			okDict := ds == 0xFFFFFFFF
			for n := uint(10); n < 32 && !okDict; n++ {
				if ds == 1<<n || ds == 1<<n+1<<(n-1) {
					okDict = true
				}
			}
			if okDict && (h.Size < 0 || h.Size <= 1<<38) {
				return "lzma"
			}
		}
	}
	return ""
}

// refDecode decodes compressed data with the reference decoders.
func refDecode(format string, data []byte) ([]byte, bool) {
	switch format {
	case "xz":
		f, err := refxz.Parse(data, false)
		if err != nil {
			return nil, false
		}
		return f.Content, true
	case "lzma":
		r, err := reflzma.DecodeAlone(data, false)
		if err != nil {
			return nil, false
		}
		if r.Consumed != len(data) {
			// bytes behind a complete .lzma stream: the file is not a .lzma file
			return nil, false
		}
		return r.Out, true
	}
	return nil, false
}

// modelOperand applies the documented semantics to one operand.
func modelOperand(v *Inv, st fsState, name string) Expect {
	e := Expect{Operand: name, Compress: !v.Decompress}
	fail := func(why string) Expect { e.Fail, e.Why = true, why; return e }
	if len(path.Base(name)) > simos.NameMax {
		return fail("file name too long")
	}
	f := st[name]
	if f == nil {
		return fail("no such file")
	}
	if f.link != "" {
		if !v.Force {
			return fail("symbolic link without -f")
		}
		t := st[f.link]
		if t == nil || t.link != "" {
			return fail("dangling link")
		}
		f = t
	}
	if f.mode&os.ModeDir != 0 {
		return fail("directory")
	}
	if f.mode&(os.ModeSetuid|os.ModeSetgid|os.ModeSticky) != 0 && !v.Force {
		return fail("setuid/setgid/sticky without -f")
	}
	if f.mode&0o400 == 0 {
		return fail("unreadable")
	}
	e.OutMode = f.mode & 0o666
	format := v.Format
	if format == "alone" {
		format = "lzma"
	}
	if !v.Decompress {
		if format == "" || format == "auto" {
			format = "xz"
		}
		e.Format = format
		e.Plain = f.data
		if v.Stdout {
			e.ToStdout = true
			return e
		}
		// the suffix rule is about deriving the output name; it does not apply
		// when the output goes to standard output (as in xz)
		for _, x := range knownExt[format] {
			if strings.HasSuffix(name, x) {
				return fail("already has suffix " + x)
			}
		}
		e.Target = name + knownExt[format][0]
	} else {
		if format == "" || format == "auto" {
			format = sniff(f.data)
			if format == "" {
				return fail("format not recognized")
			}
		} else if sniff(f.data) != format {
			return fail("not in the requested format")
		}
		e.Format = format
		plain, ok := refDecode(format, f.data)
		if !ok {
			return fail("corrupt or truncated input")
		}
		e.Plain = plain
		if v.Stdout {
			e.ToStdout = true
			return e
		}
		ext := knownExt[format]
		switch {
		case strings.HasSuffix(name, ext[0]) && len(name) > len(ext[0]) && !strings.HasSuffix(name, "/"+ext[0]):
			e.Target = strings.TrimSuffix(name, ext[0])
		case strings.HasSuffix(name, ext[1]) && len(name) > len(ext[1]):
			e.Target = strings.TrimSuffix(name, ext[1]) + ".tar"
		default:
			return fail("unknown suffix")
		}
	}
	if len(path.Base(e.Target)) > simos.NameMax {
		e.Target = ""
		return fail("target name too long")
	}
	if t := st[e.Target]; t != nil && !v.Force {
		e.Target = ""
		return fail("target exists")
	} else if t != nil && t.mode&os.ModeDir != 0 {
		// -f replaces an existing file; a directory under the target name cannot be replaced
		e.Target = ""
		return fail("target is a directory")
	}
	e.RemoveInput = !v.Keep
	return e
}

// applyExpect updates the model state with the effect of a processed operand.
func applyExpect(st fsState, e Expect, out []byte) {
	if e.Fail || e.ToStdout {
		return
	}
	st[e.Target] = &mfile{data: out, mode: e.OutMode}
	if e.RemoveInput {
		delete(st, e.Operand)
	}
}

// tempNames lists names that look like gxz temporary files.
func tempNames(w *simos.World) []string {
	var out []string
	for _, n := range w.Names() {
		if strings.HasSuffix(n, ".compress") || strings.HasSuffix(n, ".decompress") {
			out = append(out, n)
		}
	}
	sort.Strings(out)
	return out
}

// decodesTo reports whether compressed data decodes to plain under the
// reference decoders (and liblzma when linked).
func decodesTo(format string, data, plain []byte) (bool, string) {
	got, ok := refDecode(format, data)
	if !ok {
		return false, "reference decoder rejects it"
	}
	if !bytes.Equal(got, plain) {
		return false, fmt.Sprintf("reference decoder yields %d bytes, want %d", len(got), len(plain))
	}
	if liblzma.Available && format == "xz" {
		lib, err := liblzma.DecodeXZ(data)
		if err != nil || !bytes.Equal(lib, plain) {
			return false, fmt.Sprintf("liblzma: err=%v len=%d want %d", err, len(lib), len(plain))
		}
	}
	if liblzma.Available && format == "lzma" {
		lib, _, err := liblzma.DecodeAlone(data)
		if err != nil || !bytes.Equal(lib, plain) {
			return false, fmt.Sprintf("liblzma: err=%v len=%d want %d", err, len(lib), len(plain))
		}
	}
	return true, ""
}
