package gxzsim

import (
	"bytes"
	"fmt"
	"os"
	"path"
	"strings"
	"time"

	"verif/checks"
	"verif/ref/liblzma"
	"verif/ref/reflzma"
	"verif/ref/refxz"
	"verif/sim"
	"verif/sim/simos"
)

var c15Names = []string{"-", "-k", "data.bin", "my file.txt", "report", "a b c.log", "x", "notes.md", "IMG 0001.raw", "weird.name.here", "Z", "-dash.txt", "--double", "été.txt", "tab\tname",
	// names that read like the value of a boolean or numeric option
	"1", "0", "true", "false", "t", "F", "TRUE", "2024", "7"}

func genForeignStream(r *sim.Rng, format string) *checks.StreamRecipe {
	if files := checks.CorpusFiles(format); len(files) > 0 && r.Chance(1, 6) {
		// files written by xz 5.8.2 / python-lzma (single-stream ones)
		f := sim.Pick(r, files)
		if len(f) < 3 || f[:3] != "ms_" {
			return &checks.StreamRecipe{Kind: "corpus", File: f}
		}
	}
	pl := sim.GenPayload(r, 3000)
	if r.Chance(1, 30) {
		pl = zeroTailPayload(r)
	}
	if liblzma.Available && r.Chance(2, 3) {
		o := &liblzma.EncOptions{Preset: uint32(r.Intn(3)), LC: -1, Check: sim.Pick(r, []int{0, 1, 4, 10})}
		if format == "xz" {
			if r.Chance(1, 3) {
				o.BlockSize = uint64(r.Range(4096, 20000))
			}
			return &checks.StreamRecipe{Kind: "liblzma-xz", Payload: &pl, Enc: o}
		}
		return &checks.StreamRecipe{Kind: "liblzma-alone", Payload: &pl, Enc: o}
	}
	return genCompressedStream(r, format, 3000)
}

// genPresetRoundTrip: compress with one preset, decompress with a smaller one,
// on data that repeats farther back than the smaller preset's dictionary
// (256 KiB for -0): the decompressor must size its window from the file.
func genPresetRoundTrip(r *sim.Rng) *GCase {
	n := r.Range(270000, 340000)
	pl := sim.Payload{Kind: "dup", Parts: []sim.Payload{{Kind: "prng", N: n, Seed: r.Uint64()}}}
	name := sim.Pick(r, []string{"big.bin", "long range.dat"})
	format := sim.Pick(r, []string{"xz", "xz", "lzma"})
	c := &GCase{Files: []FileSpec{{Name: name, Mode: 0o644, Kind: "plain", Payload: &pl}}}
	v1 := Inv{Preset: sim.Pick(r, []int{1, 1, 2, -1}), Files: []string{name}}
	if format == "lzma" {
		v1.Format = "lzma"
	}
	v2 := Inv{Decompress: true, Preset: 0, Files: []string{name + "." + format}}
	c.Runs = []Inv{v1, v2}
	return c
}

func genC15(r *sim.Rng, tier string, idx int) *GCase {
	if r.Chance(1, 150) {
		return genPresetRoundTrip(r)
	}
	c := &GCase{StdoutKind: sim.Pick(r, []string{"", "", "", "devnull", "file"})}
	used := map[string]bool{}
	pickName := func(dash bool) string {
		for {
			n := sim.Pick(r, c15Names)
			if !dash && n[0] == '-' {
				continue
			}
			if r.Chance(1, 6) {
				n = fmt.Sprintf("f%d.dat", r.Intn(1000))
			}
			if r.Chance(1, 40) {
				// a name near the file system's limit of 255 bytes: with the suffix
				// of the result it may or may not still fit
				n = strings.Repeat(string(rune('a'+r.Intn(26))), r.Range(228, 252)) + ".d"
			}
			if !used[n] {
				used[n] = true
				return n
			}
		}
	}
	nruns := r.Weighted([]int{0, 5, 3, 1})
	dash := r.Chance(1, 5)
	// the first run decides the mode; later runs tend to invert it (round trip)
	v := Inv{Preset: sim.Pick(r, []int{0, 0, 1, -1, -1, r.Intn(10)}), Quiet: r.Weighted([]int{3, 1, 1}), Verbose: r.Weighted([]int{5, 1})}
	if v.Preset > 6 && tier != "thorough" {
		v.Preset = 2
	}
	v.Keep, v.Force, v.Stdout = r.Chance(1, 3), r.Chance(1, 4), r.Chance(1, 5)
	v.Long, v.Bundle, v.DashDash, v.FilesFirst = r.Chance(1, 4), r.Chance(1, 3), dash || r.Chance(1, 6), r.Chance(1, 8)
	v.Decompress = r.Chance(1, 3)
	format := sim.Pick(r, []string{"xz", "xz", "lzma"})
	if !v.Decompress {
		switch format {
		case "lzma":
			v.Format = sim.Pick(r, []string{"lzma", "alone"})
		default:
			v.Format = sim.Pick(r, []string{"", "", "xz", "auto"})
		}
		v.ZFlag = r.Chance(1, 6)
		v.AlsoD, v.DAfterZ = v.ZFlag && r.Chance(1, 3), r.Bool()
	} else {
		v.Format = sim.Pick(r, []string{"", "", "auto", "auto", format})
	}
	nops := r.Weighted([]int{1, 6, 3, 2})
	if nops == 0 {
		// no operand: stdin to stdout
		pl := sim.GenPayload(r, 2000)
		if v.Decompress {
			s := genForeignStream(r, format)
			c.Files = append(c.Files, FileSpec{Name: "\x00stdin", Kind: "stream", Stream: s})
		} else {
			c.Files = append(c.Files, FileSpec{Name: "\x00stdin", Kind: "plain", Payload: &pl})
		}
		// (whether standard output is a terminal is not part of the property:
		// the simulated stdout is never one)
		if r.Bool() {
			v.Files = []string{"-"} // the documented spelling of "standard input"
		}
	}
	for i := 0; i < nops; i++ {
		name := pickName(dash)
		if name == "-" && !v.Decompress {
			name = "-z-" // a bare "-" operand means standard input
		}
		var f FileSpec
		if !v.Decompress {
			f = genPlainFile(r, name, 3000)
			if r.Chance(1, 12) {
				f.Name = name + sim.Pick(r, []string{".xz", ".lzma", ".txz", ".tlz", ".XZ", ".Tlz"})
			}
			if r.Chance(1, 15) {
				f.Mode |= uint32(sim.Pick(r, []os.FileMode{os.ModeSetuid, os.ModeSetgid, os.ModeSticky}))
			}
		} else {
			// with -F auto different operands may be of different formats
			ff := format
			if v.Format == "" || v.Format == "auto" {
				ff = sim.Pick(r, []string{"xz", "lzma"})
			}
			ext := sim.Pick(r, map[string][]string{"xz": {".xz", ".xz", ".txz"}, "lzma": {".lzma", ".lzma", ".tlz"}}[ff])
			if r.Chance(1, 15) {
				ext = sim.Pick(r, []string{".XZ", ".Xz", ".LZMA", ".TLZ"}) // not a known suffix: the letter case matters
			} else if (v.Format == "" || v.Format == "auto") && r.Chance(1, 10) {
				// a known suffix of the other format: the content decides, not the name
				ext = sim.Pick(r, map[string][]string{"lzma": {".xz", ".txz"}, "xz": {".lzma", ".tlz"}}[ff])
			}
			f = FileSpec{Name: name + ext, Mode: sim.Pick(r, []uint32{0o644, 0o600, 0o444, 0o755, 0o640}), Kind: "stream", Stream: genForeignStream(r, ff)}
			switch r.Weighted([]int{12, 1, 1, 1, 1}) {
			case 4:
				if ff == "lzma" && f.Stream.Kind != "corpus" {
					f.Kind, f.Seed = "tailed", r.Uint64()
				}
			case 1:
				f.Kind = "cut"
				f.Cut = cutFor(r, f.Stream)
			case 2:
				pl := sim.GenPayload(r, 300)
				f.Kind, f.Payload, f.Stream = "garbage", &pl, nil
			case 3:
				if name != "-" {
					f.Name = name // unknown suffix
				}
			}
		}
		used[f.Name] = true
		switch r.Weighted([]int{24, 2, 1, 1}) {
		case 1:
			// the operand is a symbolic link (followed only with -f); its referent
			// may carry the very name the output is going to get
			link := FileSpec{Name: f.Name, Kind: "symlink"}
			forced := v
			forced.Force, forced.Stdout = true, false
			probe := &GCase{Files: []FileSpec{f}}
			e := modelOperand(&forced, stateOf(buildWorld(probe)), f.Name)
			real := f
			if e.Target != "" && !used[e.Target] && r.Bool() {
				real.Name = e.Target
			} else {
				real.Name = pickName(false) + ".real"
			}
			used[real.Name] = true
			link.Target = real.Name
			c.Files = append(c.Files, real)
			f = link
		case 2:
			f = FileSpec{Name: f.Name, Kind: "symlink", Target: "nowhere"} // dangling
		case 3:
			f = FileSpec{Name: f.Name, Kind: "dir"}
		}
		c.Files = append(c.Files, f)
		if f.Kind != "symlink" && f.Kind != "dir" && r.Chance(1, 20) {
			// the operand has a second name (hard link): still a regular file; the
			// other name keeps the old content whatever happens to this one
			c.Files = append(c.Files, FileSpec{Name: pickName(false) + ".hl", Kind: "hardlink", Target: f.Name})
		}
		if r.Chance(1, 12) {
			v.Files = append(v.Files, pickName(dash)+".missing") // a missing operand
		}
		v.Files = append(v.Files, f.Name)
		// a file left behind under the name of gxz's temporary output
		if r.Chance(1, 12) {
			e := modelOperand(&v, stateOf(buildWorld(c)), f.Name)
			ext := ".compress"
			if v.Decompress {
				ext = ".decompress"
			}
			if e.Target != "" && !used[e.Target+ext] {
				used[e.Target+ext] = true
				t := genPlainFile(r, e.Target+ext, 3000)
				t.Mode = sim.Pick(r, []uint32{0o666, 0o777, 0o644, 0o600})
				c.Files = append(c.Files, t)
			}
		}
		// an existing target now and then
		if r.Chance(1, 6) {
			e := modelOperand(&v, stateOf(buildWorld(c)), f.Name)
			if e.Target != "" && !used[e.Target] {
				used[e.Target] = true
				switch r.Weighted([]int{8, 2, 2}) {
				case 1:
					c.Files = append(c.Files, FileSpec{Name: e.Target, Kind: "dir"})
				case 2:
					// the name is taken by a symbolic link: dangling, to a file, to a directory
					ref := "nowhere"
					switch r.Intn(4) {
					case 3:
						ref = f.Name // the link under the target name leads back to the operand
					case 1:
						ref = pickName(false) + ".referent"
						c.Files = append(c.Files, genPlainFile(r, ref, 100))
					case 2:
						ref = pickName(false) + ".d"
						c.Files = append(c.Files, FileSpec{Name: ref, Kind: "dir"})
					}
					c.Files = append(c.Files, FileSpec{Name: e.Target, Kind: "symlink", Target: ref})
				default:
					c.Files = append(c.Files, genPlainFile(r, e.Target, 100))
				}
			}
		}
	}
	if nops > 0 && r.Chance(1, 8) {
		// standard input as one operand among files ("gxz a - b")
		if v.Decompress {
			c.Files = append(c.Files, FileSpec{Name: "\x00stdin", Kind: "stream", Stream: genForeignStream(r, format)})
		} else {
			pl := sim.GenPayload(r, 2000)
			c.Files = append(c.Files, FileSpec{Name: "\x00stdin", Kind: "plain", Payload: &pl})
		}
		at := r.Intn(len(v.Files) + 1)
		v.Files = append(v.Files[:at], append([]string{"-"}, v.Files[at:]...)...)
	}
	if r.Chance(1, 150) {
		// a long list of operands that cannot be processed
		miss := pickName(dash) + ".missing"
		for n := sim.Pick(r, []int{255, 256, 257, 512}); len(v.Files) < n; {
			v.Files = append(v.Files, miss)
		}
	}
	c.Runs = append(c.Runs, v)
	// follow-up runs: the inverse operation on what the first run produced
	st := stateOf(buildWorld(c))
	prev := v
	for k := 1; k < nruns; k++ {
		var produced []string
		for _, op := range prev.Files {
			if op == "-" {
				continue // standard input to standard output: nothing produced on disk
			}
			e := modelOperand(&prev, st, op)
			var out []byte
			if !e.Fail && !e.ToStdout {
				if e.Compress {
					out = placeholderCompressed(e.Format, e.Plain)
				} else {
					out = e.Plain
				}
				produced = append(produced, e.Target)
			}
			applyExpect(st, e, out)
		}
		if len(produced) == 0 {
			break
		}
		dashName := false
		for _, p := range produced {
			if p == "-" {
				dashName = true // as an operand "-" means standard input, not this file
			}
		}
		if dashName {
			break
		}
		nv := Inv{Preset: sim.Pick(r, []int{0, -1}), Decompress: !prev.Decompress, Keep: r.Chance(1, 4), Force: r.Chance(1, 4), DashDash: prev.DashDash, Files: produced, Bundle: r.Bool()}
		if nv.Decompress {
			nv.Format = sim.Pick(r, []string{"", "auto"})
		} else if prev.Format == "lzma" || prev.Format == "alone" {
			nv.Format = "lzma"
		}
		c.Runs = append(c.Runs, nv)
		prev = nv
	}
	return c
}

// placeholderCompressed stands for "some valid compressed form of plain" in
// the generator's look-ahead (the real bytes come from gxz itself).
func placeholderCompressed(format string, plain []byte) []byte {
	if format == "xz" {
		s := (&checks.StreamRecipe{Kind: "lib", W: &checks.WCase{Format: "xz", XZ: &checks.XZCfg{LC: 3, PB: 2, DictCap: 1 << 16, BufSize: 4096},
			Payload: sim.Lit(plain), Ops: []checks.Op{{K: "w", N: len(plain)}, {K: "c"}}}}).Build()
		return s.Stream
	}
	s := (&checks.StreamRecipe{Kind: "lib", W: &checks.WCase{Format: "lzma", LZ: &checks.LZCfg{LC: 3, PB: 2, DictCap: 1 << 16, BufSize: 4096},
		Payload: sim.Lit(plain), Ops: []checks.Op{{K: "w", N: len(plain)}, {K: "c"}}}}).Build()
	return s.Stream
}

// decodeConcat decodes a concatenation of compressed streams of one format.
func decodeConcat(format string, data []byte) ([]byte, bool) {
	if len(data) == 0 {
		return nil, true
	}
	if format == "xz" {
		f, err := refxz.Parse(data, false)
		if err != nil {
			return nil, false
		}
		return f.Content, true
	}
	var out []byte
	for len(data) > 0 {
		r, err := reflzma.DecodeAlone(data, false)
		if err != nil {
			return nil, false
		}
		out = append(out, r.Out...)
		if r.Consumed <= 0 || r.Consumed > len(data) {
			return nil, false
		}
		data = data[r.Consumed:]
	}
	return out, true
}

func runC15(c *GCase, x *sim.Ctx) *sim.Violation {
	w := buildWorld(c)
	// stdin pseudo file
	if n := w.Get("\x00stdin"); n != nil {
		w.Stdin = n.Data
		delete(w.Nodes, "\x00stdin")
	}
	st := stateOf(w)
	for ri := range c.Runs {
		v := &c.Runs[ri]
		args := v.Args()
		mode := "compress"
		if v.Decompress {
			mode = "decompress"
		}
		x.Shape(fmt.Sprintf("%s:n%d", mode, len(v.Files)))
		// model; forceFail lists operand positions that are taken to fail
		// although the documented semantics would let them succeed (only
		// operands flagged MayFail, see below)
		type expectation struct {
			exps            []Expect
			model           fsState
			anyFail         bool
			wantStdoutPlain []byte
			stdoutFormat    string
			usesStdout      bool
			mayFail         []int
			free            map[string]bool // names whose fate is not constrained (stale temporary files)
			tempLong        []int           // operands whose target name fits NAME_MAX but whose temporary name does not
		}
		stdin0 := w.Stdin
		expect := func(forceFail map[int]bool) *expectation {
			var exps []Expect
			model := st.clone()
			anyFail := false
			var wantStdoutPlain []byte
			stdoutFormat := ""
			var mayFail, tempLong []int
			free := map[string]bool{}
			// a "-" operand (and an invocation without operands) is standard input
			// written to standard output; other operands stay independent of it
			operands := v.Files
			if len(operands) == 0 {
				operands = []string{"-"}
			}
			stdin := stdin0
			usesStdout := v.Stdout
			for oi, op := range operands {
				if op == "-" {
					exps = append(exps, modelStdin(v, stdin, c.TTY))
					stdin = nil // a second "-" finds standard input at its end
					usesStdout = true
					continue
				}
				e := modelOperand(v, model, op)
				if !e.Fail && !e.ToStdout && staleTempFor(model, e) != "" {
					// A file already sits under the name gxz uses for its temporary
					// output. Nothing documented says whether the operand is then
					// refused or the stale file replaced: both are accepted, each
					// with its full consequences (see the two attempts below).
					mayFail = append(mayFail, oi)
					free[staleTempFor(model, e)] = true
					if forceFail[oi] {
						e = Expect{Operand: op, Compress: e.Compress, Fail: true, Why: "temporary name taken"}
					}
				}
				if !e.Fail && !e.ToStdout && tempNameTooLong(e) {
					tempLong = append(tempLong, oi)
					if forceFail[oi] {
						e = Expect{Operand: op, Compress: e.Compress, Fail: true, Why: "temporary name too long"}
					}
				}
				exps = append(exps, e)
				var out []byte
				if !e.Fail && !e.ToStdout {
					out = e.Plain // placeholder; compressed outputs are compared by decoding
				}
				applyExpect(model, e, out)
			}
			for _, e := range exps {
				if e.Fail {
					anyFail = true
					x.Count("operand-fails."+e.Why, 1)
				} else if e.ToStdout {
					wantStdoutPlain = append(wantStdoutPlain, e.Plain...)
					stdoutFormat = e.Format
				}
			}
			return &expectation{exps, model, anyFail, wantStdoutPlain, stdoutFormat, usesStdout, mayFail, free, tempLong}
		}
		base := expect(nil)
		w.Stdin = append([]byte(nil), w.Stdin...)
		res := invoke(w, args)
		x.Eval(1)
		x.Nontrivial(1)
		x.Step("invocations", 1)
		x.Step("fs", int64(len(w.Ops)))
		x.Ev("run %d args=%q exit=%d names=%v", ri, args, res.Exit, w.Names())
		judge := func(ex *expectation) *sim.Violation {
			exps, model, anyFail, wantStdoutPlain, stdoutFormat, usesStdout := ex.exps, ex.model, ex.anyFail, ex.wantStdoutPlain, ex.stdoutFormat, ex.usesStdout
			site := fmt.Sprintf("%s:run%d", mode, ri)
			what := fmt.Sprintf("run %d gxz %q", ri, args)
			if res.Panicked != "" {
				return sim.Viol("gxz-panic", site, "%s panicked: %s", what, res.Panicked)
			}
			if anyFail && res.Exit == 0 {
				return sim.Viol("exit-status", site+":0-despite-failure", "%s exited 0 although an operand could not be processed (%s)", what, failList(exps))
			}
			if !anyFail && res.Exit != 0 {
				return sim.Viol("exit-status", site+":nonzero-without-failure", "%s exited %d although every operand can be processed; stderr: %s", what, res.Exit, firstLine(res.Stderr))
			}
			// tree
			got := stateOf(w)
			for name, m := range model {
				if ex.free[name] {
					continue
				}
				g := got[name]
				if g == nil {
					return sim.Viol("tree", site+":missing", "%s: %q should exist afterwards (%s)", what, name, roleOf(name, exps))
				}
				isOut := false
				for _, e := range exps {
					if !e.Fail && e.Target == name {
						isOut = true
						if e.Compress {
							if ok, why := decodesTo(e.Format, g.data, e.Plain); !ok {
								return sim.Viol("output-content", site+":compressed", "%s: %q is not a valid %s form of the input: %s", what, name, e.Format, why)
							}
						} else if !bytes.Equal(g.data, e.Plain) {
							return sim.Viol("output-content", site+":decompressed", "%s: %q differs from the reference decoding at %d (%d vs %d bytes)", what, name, firstDiffB(g.data, e.Plain), len(g.data), len(e.Plain))
						}
						if g.mode.Perm()&^inModeOf(st, e).Perm() != 0 {
							return sim.Viol("permissions", site, "%s: output %q has mode %o, input had %o", what, name, g.mode.Perm(), inModeOf(st, e).Perm())
						}
						// keep the real bytes for later runs
						m.data, m.mode = g.data, g.mode
					}
				}
				if !isOut && (!bytes.Equal(g.data, m.data) || g.mode != m.mode || g.link != m.link) {
					return sim.Viol("tree", site+":changed", "%s: %q must be left as it was (%s)", what, name, roleOf(name, exps))
				}
			}
			for name := range got {
				if model[name] == nil && !ex.free[name] {
					return sim.Viol("tree", site+":extra", "%s: %q should not exist afterwards (%s)", what, name, roleOf(name, exps))
				}
			}
			// stdout
			if usesStdout {
				if !v.Decompress {
					plain, ok := decodeConcat(stdoutFormat, res.Stdout)
					if stdoutFormat == "" {
						plain, ok = nil, len(res.Stdout) == 0
					}
					if !ok || !bytes.Equal(plain, wantStdoutPlain) {
						return sim.Viol("stdout", site+":compressed", "%s: standard output (%d bytes) does not decode to the concatenated inputs (%d bytes)", what, len(res.Stdout), len(wantStdoutPlain))
					}
				} else if !anyFail && !bytes.Equal(res.Stdout, wantStdoutPlain) {
					return sim.Viol("stdout", site+":decompressed", "%s: standard output differs from the reference decoding (%d vs %d bytes)", what, len(res.Stdout), len(wantStdoutPlain))
				}
			} else if len(res.Stdout) != 0 {
				return sim.Viol("stdout", site+":unexpected", "%s wrote %d bytes to standard output without -c", what, len(res.Stdout))
			}
			return nil
		}
		chosen := base
		if viol := judge(base); viol != nil {
			// every subset of the MayFail operands failing instead is acceptable too
			ok := false
			for mask := 1; mask < 1<<len(base.mayFail) && len(base.mayFail) <= 4; mask++ {
				ff := map[int]bool{}
				for b, oi := range base.mayFail {
					if mask>>b&1 == 1 {
						ff[oi] = true
					}
				}
				alt := expect(ff)
				if judge(alt) == nil {
					ok, chosen = true, alt
					break
				}
			}
			if !ok && len(base.tempLong) > 0 {
				// does the run look exactly as if the operands whose *temporary* name
				// exceeds NAME_MAX (the name of the result does not) had been
				// unprocessable? Then it is that finding and nothing else.
				hit := false
				for mask := 0; mask < 1<<len(base.mayFail) && len(base.mayFail) <= 4 && !hit; mask++ {
					ff := map[int]bool{}
					for _, oi := range base.tempLong {
						ff[oi] = true
					}
					for b, oi := range base.mayFail {
						if mask>>b&1 == 1 {
							ff[oi] = true
						}
					}
					hit = judge(expect(ff)) == nil
				}
				if hit {
					e := base.exps[base.tempLong[0]]
					return sim.Viol("temp-name-too-long", "temporary-name-over-NAME_MAX", "run %d gxz %q: %q (%d bytes) cannot be processed although the result %q (%d bytes) is a legal name: the temporary name gxz writes to first is %d bytes long",
						ri, args, trunc(e.Operand), len(e.Operand), trunc(e.Target), len(path.Base(e.Target)), len(path.Base(e.Target))+len(tempExt(e)))
				}
			}
			if !ok {
				return viol
			}
		}
		model := chosen.model
		st = model
		w = w.Clone()
	}
	return nil
}

// modelStdin is the expectation for a "-" operand: standard input is
// compressed or decompressed to standard output.
func modelStdin(v *Inv, stdin []byte, tty bool) Expect {
	e := Expect{Operand: "-", ToStdout: true, Compress: !v.Decompress}
	f := v.Format
	if f == "alone" {
		f = "lzma"
	}
	if !v.Decompress {
		if f == "" || f == "auto" {
			f = "xz"
		}
		e.Format, e.Plain = f, stdin
		if tty && !v.Force {
			e.Fail, e.Why = true, "compressed data to a terminal"
		}
		return e
	}
	if f == "" || f == "auto" {
		f = sniff(stdin)
	} else if sniff(stdin) != f {
		f = ""
	}
	if pl, ok := refDecode(f, stdin); f != "" && ok {
		e.Format, e.Plain = f, pl
	} else {
		e.Fail, e.Why = true, "bad standard input"
	}
	return e
}

func tempExt(e Expect) string {
	if e.Compress {
		return ".compress"
	}
	return ".decompress"
}

// tempNameTooLong: the result's name fits the file system's limit, the name
// gxz gives its temporary output (result + ".compress"/".decompress") does not.
func tempNameTooLong(e Expect) bool {
	return e.Target != "" && len(path.Base(e.Target))+len(tempExt(e)) > simos.NameMax
}

func trunc(s string) string {
	if len(s) > 24 {
		return s[:12] + "..." + s[len(s)-9:]
	}
	return s
}

// staleTempFor returns the name of an existing file that occupies the name
// gxz gives its temporary output for this operand ("" if there is none).
func staleTempFor(st fsState, e Expect) string {
	if e.Target == "" {
		return ""
	}
	for _, ext := range []string{".compress", ".decompress"} {
		if (ext == ".compress") == e.Compress && st[e.Target+ext] != nil {
			return e.Target + ext
		}
	}
	return ""
}

func inModeOf(st fsState, e Expect) os.FileMode {
	f := st[e.Operand]
	if f != nil && f.link != "" {
		f = st[f.link] // the permission bits of a symbolic link's referent
	}
	if f != nil {
		return f.mode
	}
	return 0
}

func failList(exps []Expect) string {
	s := ""
	for _, e := range exps {
		if e.Fail {
			s += fmt.Sprintf("%q: %s; ", e.Operand, e.Why)
		}
	}
	return s
}

func roleOf(name string, exps []Expect) string {
	for _, e := range exps {
		if e.Operand == name {
			if e.Fail {
				return "operand that fails: " + e.Why
			}
			return fmt.Sprintf("operand, remove=%v", e.RemoveInput)
		}
		if e.Target == name {
			return "target of " + e.Operand
		}
	}
	return "bystander"
}

func firstLine(b []byte) string {
	if i := bytes.IndexByte(b, '\n'); i >= 0 {
		b = b[:i]
	}
	if len(b) > 200 {
		b = b[:200]
	}
	return string(b)
}

func firstDiffB(a, b []byte) int {
	n := len(a)
	if len(b) < n {
		n = len(b)
	}
	for i := 0; i < n; i++ {
		if a[i] != b[i] {
			return i
		}
	}
	return n
}

func init() {
	registerHook = append(registerHook, func() {
		sim.Register(sim.Spec[GCase]{
			Property:  "C15",
			Engine:    "gxzsim",
			Level:     "exploration",
			Technique: "deterministic simulation of gxz invocation histories on a simulated directory (unmodified main() in-process over the simulated os), compared step by step with an executable model of the documented command line; outputs judged by the independent decoders and liblzma, inputs from liblzma/reference encoders",
			Rule: "case = (initial directory; history of 1-3 invocations, the later ones inverting the earlier; argument vectors over {-d,-z,-k,-c,-f,-F xz|lzma|alone|auto,-0..-9,-q,-v,--, long forms, bundled short options, operands before options}; 0-3 operands incl. missing files, existing targets, wrong/unknown suffixes, truncated/garbage inputs, mixed formats under auto-detection, names with spaces, leading dashes, non-ASCII); " +
				"compared after every invocation: exit status class, resulting tree (names, modes, contents: decompressed exact, compressed by reference decoding), stdout; non-trivial = every invocation; distinct = distinct scenario digests",
			Gen:    genC15,
			Run:    runC15,
			Shrink: func(c *GCase) []*GCase { return shrinkGCase(c) },
			Runs: func(tier string) int {
				if tier == "thorough" {
					return 1500000
				}
				return 40000
			},
			Budget: func(tier string) time.Duration {
				if tier == "thorough" {
					return 25 * time.Minute
				}
				return 50 * time.Second
			},
			RunDeadline: 120 * time.Second,
			Procs:       true,
			Post:        fidelityPass,
			Assumptions: []string{
				"the model encodes the documented semantics (usage text, xz-utils conventions the property names): suffix rules incl. .txz/.tlz -> .tar, -k/-c keep the input, -c writes only to stdout, no overwrite without -f, per-file format detection, independence of operands, exit status non-zero iff some operand failed, output mode a subset of the input mode",
				"file names that gflag's optional-argument rule for boolean flags could swallow ('true', '1', ...) are not generated; stderr is not compared",
				"'accepted by xz-utils' = accepted by liblzma 5.4.1 (when linked) and by the independent reference decoders; 'written by xz-utils' = encoded by liblzma / reference encoder",
			},
			Components: gxzComponents,
		})
	})
}
