package gxzsim

import (
	"bytes"
	"fmt"
	"os"
	"strings"
	"time"

	"verif/checks"
	"verif/sim"
	"verif/sim/simos"
)

var gxzComponents = map[string][]string{
	"real":    {"cmd/gxz (main, processFile, reader/writer, signal handler code)", "internal/gflag", "internal/xlog", "internal/term (IsTerminal, asked about a real pipe / /dev/null / regular file standing behind the simulated stdout)", "github.com/ulikunitz/xz and lzma (whole library)"},
	"stub":    {"verif/sim/simos (package os: in-memory file system, process exit, stdio)", "verif/sim/simsignal (os/signal)", "verif/sim/simterm (only the mapping from the simulated descriptor to a real kernel object)"},
	"oracles": {"executable model of the documented command line", "verif/ref/refxz, reflzma", "liblzma via cgo when linked"},
}

var safeNames = []string{"data.bin", "my file.txt", "report", "a b c.log", "x.tar", "notes.md", "IMG 0001.raw", "archive.dat", "weird.name.here", "Z", "1", "true", "2024"}

// genPlainFile draws an uncompressed input.
func genPlainFile(r *sim.Rng, name string, max int) FileSpec {
	pl := sim.GenPayload(r, max)
	if max >= 3000 && r.Chance(1, 40) {
		pl = zeroTailPayload(r)
	}
	mode := sim.Pick(r, []uint32{0o644, 0o600, 0o664, 0o755, 0o444, 0o640, 0o666, 0o777})
	return FileSpec{Name: name, Mode: mode, Kind: "plain", Payload: &pl}
}

// zeroTailPayload: content whose size is a multiple of 32 KiB (the unit in which
// gxz copies) and whose last 32 or 64 KiB are zero bytes - a disk image with
// free space at its end. Anything clever about runs of zeros (holes) has to
// get the end of such a file right.
func zeroTailPayload(r *sim.Rng) sim.Payload {
	parts := []sim.Payload{}
	if r.Bool() {
		parts = append(parts, sim.Payload{Kind: sim.Pick(r, []string{"text", "prng"}), N: 32768 * r.Range(1, 2), Seed: r.Uint64()})
	}
	parts = append(parts, sim.Payload{Kind: "run", N: 32768 * r.Range(1, 2), A: 0})
	return sim.Payload{Kind: "concat", Parts: parts}
}

// genCompressedStream draws a valid compressed file of a format that gxz
// recognises (dictionary sizes gxz's header check accepts).
func genCompressedStream(r *sim.Rng, format string, max int) *checks.StreamRecipe {
	pl := sim.GenPayload(r, max)
	if max > 0 && r.Chance(1, 25) {
		pl = zeroTailPayload(r)
	}
	n := pl.Len()
	dict := sim.Pick(r, []int{4096, 1 << 16, 1 << 18, 1 << 20, 6144, 3 << 15, 3 << 18}) // 2^n and 2^n + 2^(n-1): what xz-utils' header check accepts
	if format == "xz" && max > 0 && r.Chance(1, 6) {
		// an archive of several concatenated streams (cat a.xz b.xz), with stream padding
		m := &checks.StreamRecipe{Kind: "multi"}
		for i, k := 0, r.Range(2, 3); i < k; i++ {
			m.Parts = append(m.Parts, *genCompressedStream(r, "xz", -max/2))
			m.Pads = append(m.Pads, sim.Pick(r, []int{0, 0, 4, 8}))
		}
		return m
	}
	if max < 0 {
		max = -max // a part of a multi-stream archive
		pl = sim.GenPayload(r, max)
		n = pl.Len()
	}
	if format == "xz" {
		if r.Chance(1, 3) {
			return &checks.StreamRecipe{Kind: "refenc-xz", Seed: r.Uint64()}
		}
		cfg := checks.XZCfg{LC: 3, LP: 0, PB: 2, DictCap: dict, BufSize: 4096, CheckSum: sim.Pick(r, []byte{1, 4, 10})}
		if r.Chance(1, 4) {
			cfg.BlockSize = int64(r.Range(50, 2000))
		}
		return &checks.StreamRecipe{Kind: "lib", W: &checks.WCase{Format: "xz", XZ: &cfg, Payload: pl, Ops: []checks.Op{{K: "w", N: n}, {K: "c"}}}}
	}
	cfg := checks.LZCfg{LC: 3, LP: 0, PB: 2, DictCap: dict, BufSize: 4096}
	switch r.Intn(3) {
	case 1:
		cfg.SizeInHeader, cfg.Size = true, int64(n)
	case 2:
		cfg.SizeInHeader, cfg.Size, cfg.EOSMarker = true, int64(n), true
	}
	return &checks.StreamRecipe{Kind: "lib", W: &checks.WCase{Format: "lzma", LZ: &cfg, Payload: pl, Ops: []checks.Op{{K: "w", N: n}, {K: "c"}}}}
}

// cutFor draws the length to which a compressed input is truncated; for an
// archive of several streams three quarters of the cuts fall at, or a few bytes behind,
// the start of a later stream (the places where "no more streams" and "a
// stream that was cut off" have to be told apart).
func cutFor(r *sim.Rng, st *checks.StreamRecipe) int {
	b := st.Build()
	n := len(b.Stream)
	if len(b.PartEnds) > 1 && r.Chance(3, 4) {
		i := r.Intn(len(b.PartEnds) - 1)
		start := b.PartEnds[i]
		if i < len(st.Pads) {
			start += st.Pads[i]
		}
		// 0, 4 and 12: the input ends exactly where one of the reader's reads begins
		c := start + sim.Pick(r, []int{0, 0, 0, 4, 4, 4, 12, 12, 12, 1, 2, 3, 5, 6, 8, 11, 13})
		if c < n {
			return c
		}
	}
	c := r.Intn(n)
	if r.Bool() && n > 13 {
		c = r.Range(12, n-1) // past the header so that the format is still recognised
	}
	return c
}

// genLongTruncated: a truncated archive whose decoded part exceeds the
// decompressor's window (256 KiB with -0), so that the decoder's error arrives
// together with data in the copy loop. Only the run itself is judged (no plan
// enumeration: one invocation decodes several hundred KiB).
func genLongTruncated(r *sim.Rng) *GCase {
	format := sim.Pick(r, []string{"lzma", "lzma", "xz"})
	n := r.Range(300000, 700000)
	pl := sim.Payload{Kind: sim.Pick(r, []string{"text", "alpha", "period"}), N: n, Seed: r.Uint64(), A: r.Range(3, 300)}
	var st *checks.StreamRecipe
	if format == "xz" {
		st = &checks.StreamRecipe{Kind: "lib", W: &checks.WCase{Format: "xz", XZ: &checks.XZCfg{LC: 3, PB: 2, DictCap: 1 << 16, BufSize: 4096}, Payload: pl, Ops: []checks.Op{{K: "w", N: n}, {K: "c"}}}}
	} else {
		st = &checks.StreamRecipe{Kind: "lib", W: &checks.WCase{Format: "lzma", LZ: &checks.LZCfg{LC: 3, PB: 2, DictCap: 1 << 16, BufSize: 4096, SizeInHeader: r.Bool(), Size: int64(n)}, Payload: pl, Ops: []checks.Op{{K: "w", N: n}, {K: "c"}}}}
		if !st.W.LZ.SizeInHeader {
			st.W.LZ.Size = 0
		}
	}
	total := len(st.Build().Stream)
	name := "big archive." + format
	c := &GCase{PartialSeed: r.Uint64()}
	c.Files = []FileSpec{{Name: name, Mode: 0o644, Kind: "cut", Stream: st, Cut: r.Range(total*3/4, total-1)}}
	c.Runs = []Inv{{Decompress: true, Preset: sim.Pick(r, []int{0, 0, 1}), Keep: r.Chance(1, 4), Files: []string{name}}}
	return c
}

func genC10(r *sim.Rng, tier string, idx int) *GCase {
	if r.Chance(1, 60) {
		return genLongTruncated(r)
	}
	c := &GCase{Enumerate: true, PartialSeed: r.Uint64()}
	c.FullSig = r.Chance(1, 8) || (tier == "thorough" && r.Bool())
	c.StdoutKind = sim.Pick(r, []string{"", "", "", "devnull", "file"})
	v := Inv{Preset: sim.Pick(r, []int{0, 0, 0, 1, -1}), Quiet: r.Intn(2)}
	if tier == "thorough" && r.Chance(1, 20) {
		v.Preset = r.Intn(7)
	}
	v.Keep, v.Force, v.Stdout = r.Chance(1, 3), r.Chance(1, 3), r.Chance(1, 5)
	v.Long, v.Bundle = r.Chance(1, 4), r.Chance(1, 3)
	format := sim.Pick(r, []string{"xz", "lzma"})
	max := 3000
	if r.Chance(1, 6) {
		max = 40000 // several write calls of the output file
	}
	base := sim.Pick(r, safeNames)
	if r.Chance(1, 8) {
		base = sim.Pick(r, []string{"-", "-x", "--", "-k"}) // needs "--" on the command line
	}
	if r.Bool() {
		// compress
		if base == "-" {
			base = "-y" // a bare "-" operand means standard input
		}
		if format == "lzma" {
			v.Format = sim.Pick(r, []string{"lzma", "alone"})
		} else if r.Bool() {
			v.Format = sim.Pick(r, []string{"xz", "auto"})
		}
		name := base
		if r.Chance(1, 10) {
			name = base + sim.Pick(r, []string{".xz", ".lzma", ".txz", ".tlz", ".XZ", ".Lzma"})
		}
		c.Files = append(c.Files, genPlainFile(r, name, max))
		if r.Chance(1, 12) {
			c.Files[0].Mode &^= 0o400 // unreadable
		}
	} else {
		v.Decompress = true
		switch r.Intn(3) {
		case 0:
			v.Format = format
			if format == "lzma" && r.Bool() {
				v.Format = "alone"
			}
		case 1:
			v.Format = "auto"
		}
		ext := map[string][]string{"xz": {".xz", ".xz", ".xz", ".txz"}, "lzma": {".lzma", ".lzma", ".tlz"}}[format]
		name := base + sim.Pick(r, ext)
		if r.Chance(1, 12) {
			// a known suffix in another letter case is not a known suffix
			name = base + sim.Pick(r, []string{".XZ", ".Xz", ".LZMA", ".Lzma", ".TXZ", ".tLz"})
		} else if r.Chance(1, 6) {
			name = base // no known suffix
			if r.Bool() {
				name = base + ".bak"
			}
		}
		f := FileSpec{Name: name, Mode: sim.Pick(r, []uint32{0o644, 0o600, 0o444, 0o755}), Stream: genCompressedStream(r, format, max)}
		switch r.Weighted([]int{5, 2, 2, 1, 1}) {
		case 4:
			f.Kind = "stream"
			if format == "lzma" {
				f.Kind, f.Seed = "tailed", r.Uint64()
			}
		case 0:
			f.Kind = "stream"
		case 1:
			f.Kind = "cut"
			if format == "xz" && f.Stream.Kind != "multi" && max > 0 && r.Chance(1, 3) {
				m := &checks.StreamRecipe{Kind: "multi"}
				for i, k := 0, r.Range(2, 3); i < k; i++ {
					m.Parts = append(m.Parts, *genCompressedStream(r, "xz", -max/2))
					m.Pads = append(m.Pads, sim.Pick(r, []int{0, 0, 4, 8}))
				}
				f.Stream = m
			}
			f.Cut = cutFor(r, f.Stream)
		case 2:
			// damage is only unambiguous where the format can detect it: .xz with a
			// check (a .lzma stream carries no checksum)
			if format == "xz" && (f.Stream.Kind == "lib" || f.Stream.Kind == "multi") {
				f.Kind = "damaged"
				f.Seed = r.Uint64()
			} else {
				f.Kind = "cut"
				f.Cut = cutFor(r, f.Stream)
			}
		default:
			pl := sim.GenPayload(r, 500)
			f.Kind, f.Payload, f.Stream = "garbage", &pl, nil
		}
		c.Files = append(c.Files, f)
	}
	if r.Chance(1, 10) {
		// the operand is a symbolic link, which gxz follows only with -f; the
		// referent may carry the very name the output is going to get
		real := c.Files[0]
		link := FileSpec{Name: real.Name, Kind: "symlink"}
		forced := v
		forced.Force, forced.Stdout = true, false
		e := modelOperand(&forced, stateOf(buildWorld(c)), real.Name)
		if e.Target != "" && r.Chance(2, 3) {
			real.Name = e.Target
		} else {
			real.Name = sim.Pick(r, []string{"real.dat", "the real file", "r"})
		}
		link.Target = real.Name
		c.Files = []FileSpec{link, real}
		v.Force = r.Chance(3, 4)
	}
	in := c.Files[0].Name
	v.Files = []string{in}
	v.DashDash = r.Chance(1, 5) || in[0] == '-'
	// surroundings: an existing target, a stale temp file, an unrelated file
	e := modelOperand(&v, stateOf(buildWorld(c)), in)
	if e.Fail && r.Chance(1, 25) {
		// an operand that cannot be processed, many times over: the run fails
		// once per operand (only the fault-free run is judged)
		n := sim.Pick(r, []int{255, 256, 257, 512})
		for len(v.Files) < n {
			v.Files = append(v.Files, in)
		}
		c.Enumerate = false
	}
	tgt := e.Target
	if tgt == "" && !v.Stdout {
		// the operand fails in the model; still place files where a target might go
		tgt = in + ".xz"
	}
	if tgt != "" && r.Chance(1, 4) {
		taken := false
		for _, f := range c.Files {
			taken = taken || f.Name == tgt
		}
		k := r.Weighted([]int{10, 2, 2})
		if k == 2 && taken {
			k = 0 // (the referent of a linked operand has this name: no link over it)
		}
		switch k {
		case 1:
			c.Files = append(c.Files, FileSpec{Name: tgt, Kind: "dir"})
		case 2:
			// the name is taken by a symbolic link: dangling, or to a file
			ref := "nowhere"
			switch r.Intn(3) {
			case 1:
				ref = "the referent"
				c.Files = append(c.Files, genPlainFile(r, ref, 100))
			case 2:
				ref = in // the link under the target name leads back to the input
			}
			c.Files = append(c.Files, FileSpec{Name: tgt, Kind: "symlink", Target: ref})
		default:
			c.Files = append(c.Files, genPlainFile(r, tgt, 200))
		}
	}
	if tgt != "" && r.Chance(1, 10) {
		ext := ".compress"
		if v.Decompress {
			ext = ".decompress"
		}
		c.Files = append(c.Files, genPlainFile(r, tgt+ext, 50))
	}
	if r.Chance(1, 3) {
		c.Files = append(c.Files, genPlainFile(r, "unrelated.keep", 100))
	}
	if k := c.Files[len(c.Files)-1].Kind; len(c.Files) == 1 && k != "symlink" && k != "dir" && r.Chance(1, 12) {
		// the operand has a second name (hard link)
		c.Files = append(c.Files, FileSpec{Name: "other name of it", Kind: "hardlink", Target: c.Files[0].Name})
	}
	if len(v.Files) == 1 && !v.Stdout && r.Chance(1, 5) {
		// a second operand in the same invocation, before or after the first:
		// whatever the run leaves of the one must not depend on what happened
		// to the other (every operand gets its own judge)
		var f2 FileSpec
		if !v.Decompress {
			f2 = genPlainFile(r, "zz second", 2000)
		} else {
			ext := map[string]string{"xz": ".xz", "lzma": ".lzma"}[format]
			f2 = FileSpec{Name: "zz second" + ext, Mode: 0o644, Kind: "stream", Stream: genCompressedStream(r, format, 2000)}
			switch r.Intn(4) {
			case 0:
				f2.Kind = "cut"
				f2.Cut = cutFor(r, f2.Stream)
			case 1:
				pl := sim.GenPayload(r, 300)
				f2.Kind, f2.Payload, f2.Stream = "garbage", &pl, nil
			}
		}
		c.Files = append(c.Files, f2)
		if r.Bool() {
			v.Files = []string{in, f2.Name}
		} else {
			v.Files = []string{f2.Name, in}
		}
	}
	c.Runs = []Inv{v}
	return c
}

// planList enumerates the kill and fault points of a run whose fault-free
// execution performed the given mutating operations.
func planList(kinds []string, nmeta int, armedMuts []int, armedReads int, inPath string, inLen int, seed uint64, fullSig bool) []simos.Plan {
	r := sim.NewRng(seed)
	var out []simos.Plan
	for i, k := range kinds {
		at := i + 1
		out = append(out, simos.Plan{KillAt: at, KillWhen: "before"}, simos.Plan{KillAt: at, KillWhen: "after"})
		isWrite := k == "write" || k == "write-stdout"
		if isWrite {
			out = append(out, simos.Plan{KillAt: at, KillWhen: "mid", MidBytes: r.Range(1, 4000)})
		}
		p1 := simos.Plan{FailAt: at, Errno: "ENOSPC"}
		if isWrite {
			p1.Partial = r.Range(0, 4000)
		}
		out = append(out, p1, simos.Plan{FailAt: at, Errno: "EIO"})
	}
	// every metadata operation (lstat, stat, fstat, open for reading) fails with EIO
	for j := 1; j <= nmeta; j++ {
		out = append(out, simos.Plan{FailMetaAt: j})
	}
	// simulated SIGINT at every mutating operation, with a few interleavings of
	// the handler's two steps (remove the temporary file; exit 7) against main
	armed := map[int]bool{}
	for _, i := range armedMuts {
		armed[i] = true
	}
	for i := range kinds {
		at := i + 1
		combos := [][2]int{{0, 0}, {1, 0}, {0, 2}, {r.Range(0, 4), r.Range(0, 4)}, {r.Range(2, 12), r.Range(0, 2)}}
		if fullSig {
			// every placement of "remove the temporary file" and "exit 7" among
			// the operations main still has to perform (rem+1 slots each)
			combos = combos[:0]
			rem := len(kinds) - at + 1
			for a := 0; a <= rem; a++ {
				for b := 0; a+b <= rem; b++ {
					combos = append(combos, [2]int{a, b})
				}
			}
		}
		if !armed[at] {
			combos = combos[:1] // no handler listens there: default action, one plan is enough
		}
		for _, ab := range combos {
			out = append(out, simos.Plan{SigAt: at, SigRemoveAfter: ab[0], SigExitAfter: ab[1]})
		}
	}
	// ... and at the reads of the copy loop (the window in which gxz's handler listens)
	for j := 1; j <= armedReads && j <= 6; j++ {
		for _, ab := range [][2]int{{0, 0}, {1, 0}, {0, 1}, {r.Range(0, 5), r.Range(0, 5)}, {r.Range(2, 12), r.Range(0, 3)}} {
			out = append(out, simos.Plan{SigAtRead: j, SigRemoveAfter: ab[0], SigExitAfter: ab[1]})
		}
	}
	if inLen > 0 {
		out = append(out, simos.Plan{ReadFail: true, ReadPath: inPath, ReadFailOff: r.Intn(inLen)},
			simos.Plan{ReadFail: true, ReadPath: inPath, ReadFailOff: inLen})
	}
	return out
}

func planName(p simos.Plan, kinds []string) string {
	kind := func(i int) string {
		if i >= 1 && i <= len(kinds) {
			return kinds[i-1]
		}
		return "?"
	}
	switch {
	case p.KillAt > 0:
		return "kill-" + p.KillWhen + "-" + kind(p.KillAt)
	case p.FailAt > 0 && p.FailAt2 > 0:
		return "fail-" + kind(p.FailAt) + "+" + kind(p.FailAt2) + "-" + p.Errno
	case p.FailAt > 0:
		return "fail-" + kind(p.FailAt) + "-" + p.Errno
	case p.ReadFail:
		return "read-EIO"
	case p.FailMetaAt > 0:
		return "fail-metadata-op-EIO"
	case p.SigAt > 0:
		return fmt.Sprintf("sigint-at-%s", kind(p.SigAt))
	case p.SigAtRead > 0:
		return "sigint-at-read"
	}
	return "none"
}

// c10Judge evaluates the data-loss invariants on the world after a run.
type c10Judge struct {
	c *GCase
	v *Inv
	// alt: for a damaged input the run may also succeed, provided the output
	// is exactly the original content (damage that does not change what the
	// stream decodes to, e.g. in bytes no decoder needs)
	alt     *Expect
	e       Expect
	in      string
	orig    []byte
	init    fsState
	scClass string
	// multi: the invocation has several operands; names are the paths that
	// belong to this one (input, referent, target, temporary names), foreign
	// the paths of the others
	multi   bool
	names   map[string]bool
	foreign map[string]bool
}

func newC10Judge(c *GCase) *c10Judge { return newC10JudgeAt(c, 0) }

// c10Judges returns one judge per distinct operand of the last invocation.
func c10Judges(c *GCase) []*c10Judge {
	v := &c.Runs[len(c.Runs)-1]
	seen := map[string]bool{}
	var js []*c10Judge
	for k, f := range v.Files {
		if !seen[f] {
			seen[f] = true
			js = append(js, newC10JudgeAt(c, k))
		}
	}
	if len(js) > 1 {
		for _, j := range js {
			j.multi = true
			j.foreign = map[string]bool{}
			for _, o := range js {
				if o != j {
					for n := range o.names {
						j.foreign[n] = true
					}
				}
			}
		}
	}
	return js
}

func newC10JudgeAt(c *GCase, k int) *c10Judge {
	w0 := buildWorld(c)
	v := &c.Runs[len(c.Runs)-1]
	j := &c10Judge{c: c, v: v, init: stateOf(w0), in: v.Files[k]}
	j.e = modelOperand(v, j.init, j.in)
	dataName := j.in // the file that holds the operand's bytes
	if f := j.init[j.in]; f != nil && f.link != "" {
		dataName = f.link
	}
	for i := range c.Files {
		if f := &c.Files[i]; f.Name == dataName && f.Kind == "damaged" && j.e.Fail {
			st := j.init.clone()
			st[dataName].data = f.Stream.Build().Stream
			if a := modelOperand(v, st, j.in); !a.Fail {
				j.alt = &a
			}
		}
	}
	if f := j.init[j.in]; f != nil {
		j.orig = f.data
		if f.link != "" && j.init[f.link] != nil {
			j.orig = j.init[f.link].data
		}
	}
	mode := "compress"
	if v.Decompress {
		mode = "decompress"
	}
	j.names = map[string]bool{j.in: true}
	if f := j.init[j.in]; f != nil && f.link != "" {
		j.names[f.link] = true
	}
	for _, e := range []*Expect{&j.e, j.alt} {
		if e != nil && e.Target != "" {
			j.names[e.Target], j.names[e.Target+".compress"], j.names[e.Target+".decompress"] = true, true, true
		}
	}
	j.scClass = mode
	if j.e.Fail {
		j.scClass += ":bad-operand(" + j.e.Why + ")"
	}
	if v.Stdout {
		j.scClass += ":stdout"
	}
	return j
}

// completeOutput reports whether data is the complete output of the operand.
func (j *c10Judge) completeOutput(data []byte) bool {
	if j.e.Fail || j.e.Plain == nil && len(j.orig) > 0 && j.e.Compress {
		return false
	}
	if j.e.Compress {
		ok, _ := decodesTo(j.e.Format, data, j.orig)
		return ok
	}
	return bytes.Equal(data, j.e.Plain)
}

func (j *c10Judge) judge(res RunResult, plan simos.Plan, planTag string) *sim.Violation {
	v := j.judgeWith(res, plan, planTag)
	if v != nil && j.alt != nil {
		saved := j.e
		j.e = *j.alt
		v2 := j.judgeWith(res, plan, planTag)
		j.e = saved
		if v2 == nil {
			return nil
		}
	}
	return v
}

func (j *c10Judge) judgeWith(res RunResult, plan simos.Plan, planTag string) *sim.Violation {
	w := res.World
	site := j.scClass + ":" + planTag
	if res.Panicked != "" {
		return sim.Viol("gxz-panic", site, "gxz panicked: %s", res.Panicked)
	}
	inNode := w.Get(j.in)
	inputIntact := inNode != nil && bytes.Equal(inNode.Data, j.orig) && inNode.Target == j.init[j.in].link
	if l := j.init[j.in]; l != nil && l.link != "" {
		// a symbolic link as operand: intact = the link is as it was and its
		// referent still holds the original bytes
		ref := w.Get(l.link)
		inputIntact = inNode != nil && inNode.Target == l.link && ref != nil && bytes.Equal(ref.Data, j.orig)
	}
	// the final target name of the operand (model); for failing operands none
	var tgtNode *simos.Node
	tgt := j.e.Target
	if tgt != "" {
		tgtNode = w.Get(tgt)
	}
	// I1: the data exists in one complete form
	if j.init[j.in] != nil && !inputIntact {
		ok := tgt != "" && tgt != j.in && tgtNode != nil && j.completeOutput(tgtNode.Data)
		if !ok {
			state := "missing"
			if inNode != nil {
				state = fmt.Sprintf("changed (%d bytes)", len(inNode.Data))
			}
			tstate := "no target"
			if tgt != "" {
				tstate = "target " + tgt + " absent"
				if tgtNode != nil {
					tstate = fmt.Sprintf("target %s holds %d bytes that are not the complete output", tgt, len(tgtNode.Data))
				}
			}
			return sim.Viol("data-lost", site, "input %q is %s and %s (exit=%d killed=%v)", j.in, state, tstate, res.Exit, res.Killed)
		}
	}
	// unrelated files are never touched
	for name, f := range j.init {
		if name == j.in || name == tgt || strings.HasSuffix(name, ".compress") || strings.HasSuffix(name, ".decompress") || j.foreign[name] {
			continue
		}
		n := w.Get(name)
		if n == nil || !bytes.Equal(n.Data, f.data) {
			return sim.Viol("unrelated-file-touched", site, "file %q changed or vanished", name)
		}
	}
	if res.Killed {
		return nil
	}
	// non-killed runs
	fired := 0
	for k, n := range w.Fired {
		if strings.HasPrefix(k, "fail-") || k == "read-EIO" {
			fired += n
		}
	}
	if j.multi {
		// only the failures that struck an operation on this operand's paths
		fired = 0
		for _, o := range w.Ops {
			if o.Err == "" || o.Err == "EEXIST" || o.Err == "ENOENT" || (o.Mut == 0 && o.Kind != "read") {
				continue // no failure, the kernel's regular answer, or a metadata call (no exit status demanded for those)
			}
			for n := range j.names {
				if o.Path == n || strings.HasPrefix(o.Path, n+" -> ") || strings.HasSuffix(o.Path, " -> "+n) {
					fired++
					break
				}
			}
		}
	}
	mustFail := j.e.Fail || fired > 0
	if mustFail {
		if res.Exit == 0 {
			return sim.Viol("failure-exit-0", site, "run with %s exited 0", j.why(fired))
		}
		// With -f the operand may be a symbolic link whose referent carries the
		// output's name: the rename that puts the complete output in place then
		// is the replacement of the input, and a failure after it (closing the
		// input, removing the link) cannot leave the referent as it was. The
		// clause "leaves the input untouched" presupposes a target different
		// from the input; here the complete output under that name is what counts.
		alias := false
		if l := j.init[j.in]; l != nil && l.link != "" && l.link == tgt && tgtNode != nil && j.completeOutput(tgtNode.Data) {
			alias = true
		}
		if j.init[j.in] != nil && !inputIntact && !alias {
			// complete output in place and input gone is only acceptable when the
			// failure hit after the output was complete, e.g. a failing close of
			// the input; the property says a failing run leaves the input untouched
			return sim.Viol("input-touched-on-failure", site, "run with %s changed or removed the input", j.why(fired))
		}
	}
	// nothing partial under the target name
	if tgt != "" && tgtNode != nil {
		pre := j.init[tgt]
		isPre := pre != nil && bytes.Equal(pre.data, tgtNode.Data)
		if !isPre && !j.completeOutput(tgtNode.Data) {
			return sim.Viol("partial-target", site, "target %q holds %d bytes that are neither its previous content nor the complete output (exit=%d)", tgt, len(tgtNode.Data), res.Exit)
		}
	}
	// no temporary file remains (pre-existing stale ones are not gxz's)
	for _, t := range tempNames(w) {
		if _, was := j.init[t]; was || j.foreign[t] {
			continue
		}
		// gxz cannot remove a file whose removal the (simulated) kernel refuses
		refused := false
		for _, o := range w.Ops {
			if o.Kind == "remove" && o.Path == t && o.Mut > 0 && o.Err != "" {
				refused = true
			}
		}
		if refused {
			continue
		}
		return sim.Viol("temp-file-left", site, "temporary file %q remains after the run (exit=%d)", t, res.Exit)
	}
	// a failing operand must not create files under names it might have targeted
	if j.e.Fail {
		for _, n := range w.Names() {
			if _, was := j.init[n]; !was && !strings.HasSuffix(n, ".compress") && !strings.HasSuffix(n, ".decompress") && !j.foreign[n] {
				return sim.Viol("partial-target", site+":unexpected-file", "failing run created %q", n)
			}
		}
	}
	return nil
}

func (j *c10Judge) why(fired int) string {
	if j.e.Fail {
		return "a bad operand (" + j.e.Why + ")"
	}
	return fmt.Sprintf("%d injected failure(s)", fired)
}

func runC10(c *GCase, x *sim.Ctx) *sim.Violation {
	js := c10Judges(c)
	j := js[0]
	if len(js) > 1 {
		x.Probe("several-operands")
	}
	judgeAll := func(res RunResult, plan simos.Plan, tag string) *sim.Violation {
		for k, jk := range js {
			if v := jk.judge(res, plan, tag); v != nil {
				if len(js) > 1 {
					v.Detail = fmt.Sprintf("operand %d of %d (%q): %s", k+1, len(js), jk.in, v.Detail)
				}
				return v
			}
		}
		return nil
	}
	x.Shape(j.scClass)
	w0 := buildWorld(c)
	// earlier invocations of the history run fault-free
	for i := 0; i < len(c.Runs)-1; i++ {
		invoke(w0, c.Runs[i].Args())
		w0 = w0.Clone()
	}
	args := j.v.Args()
	// fault-free run
	wf := w0.Clone()
	base := invoke(wf, args)
	kinds := wf.MutKinds()
	x.Eval(1)
	x.Step("fs", int64(len(wf.Ops)))
	x.Step("invocations", 1)
	for _, l := range wf.LogLines() {
		x.Ev("%s", l)
	}
	x.Ev("exit=%d", base.Exit)
	x.Shape(strings.Join(kinds, ",") + fmt.Sprintf(":exit%d", base.Exit))
	x.Count("scenario."+j.scClass, 1)
	if v := judgeAll(base, simos.Plan{}, "none"); v != nil {
		return v
	}
	if !c.Enumerate {
		if c.Plan != (simos.Plan{}) {
			wp := w0.Clone()
			wp.Plan = c.Plan
			res := invoke(wp, args)
			x.Eval(1)
			x.Nontrivial(1)
			return judgeAll(res, c.Plan, planName(c.Plan, kinds))
		}
		return nil
	}
	inLen := len(j.orig)
	plans := planList(kinds, wf.NMeta, wf.ArmedMuts, wf.ArmedReads, j.in, inLen, c.PartialSeed, c.FullSig)
	for pi, p := range plans {
		if c.HasOnly && pi != c.Only {
			continue
		}
		wp := w0.Clone()
		wp.Plan = p
		res := invoke(wp, args)
		x.Eval(1)
		x.Step("fs", int64(len(wp.Ops)))
		x.Step("invocations", 1)
		tag := planName(p, kinds)
		firedAny := false
		for k, n := range wp.Fired {
			x.Count("fault."+k, int64(n))
			firedAny = firedAny || n > 0
		}
		if firedAny {
			x.Nontrivial(1)
		} else {
			x.Count("plan-not-reached", 1)
		}
		x.Ev("plan %s -> exit=%d killed=%v names=%v", tag, res.Exit, res.Killed, wp.Names())
		if v := judgeAll(res, p, tag); v != nil {
			nc := *c
			nc.HasOnly, nc.Only = true, pi
			v.Narrow = &nc
			if os.Getenv("VERIF_DEBUG") != "" {
				for _, l := range wp.LogLines() {
					fmt.Println("   ", l)
				}
				fmt.Printf("    stderr: %s\n", res.Stderr)
			}
			return v
		}
	}
	return nil
}

func init() {
	registerHook = append(registerHook, func() {
		sim.Register(sim.Spec[GCase]{
			Property:  "C10",
			Engine:    "gxzsim",
			Level:     "fault_enumeration",
			Technique: "deterministic simulation of the gxz process on a simulated file system: the unmodified main() runs in-process over verif/sim/simos; every file-system mutation of a run is enumerated as kill point (before / after / mid-write) and as ENOSPC/EIO fault point, reads fail at seeded offsets; the data-loss invariant is evaluated on the simulated directory after every kill and every run",
			Rule: "case = (initial directory: input valid/truncated (also several hundred KiB, longer than the decompressor's window)/damaged/not compressed, optional existing target, stale temp file, unrelated file; one invocation from {compress, decompress} x {xz, lzma} x subsets of {-k,-f,-c} x names with spaces / known / unknown suffix / .txz/.tlz); fault space per case = for each of the M mutating operations of the fault-free run: kill before, kill after, kill mid-write, fail ENOSPC (partial write), fail EIO, and simulated SIGINT with 5 main/handler interleavings; plus every lstat/stat/fstat/open failing with EIO (no exit status demanded for those: the property lists write, close, rename, remove) and two read faults; " +
				"non-trivial = every faulted run whose fault actually fired; distinct = (scenario digest, plan) pairs",
			Gen:    genC10,
			Run:    runC10,
			Shrink: func(c *GCase) []*GCase { return shrinkGCase(c) },
			Runs: func(tier string) int {
				if tier == "thorough" {
					return 60000
				}
				return 4000
			},
			Budget: func(tier string) time.Duration {
				if tier == "thorough" {
					return 25 * time.Minute
				}
				return 50 * time.Second
			},
			RunDeadline: 120 * time.Second,
			Procs:       true,
			Post:        faultFidelityPass,
			Exhaustive:  []string{"every mutating file-system operation of each scenario's run as kill point (before/after/mid-write) and as fault point (ENOSPC, EIO)"},
			Assumptions: []string{
				"process-kill semantics: every completed file-system operation is durable (page cache survives the process); power-loss reordering is outside the property",
				"the simulated file system (flat namespace, modes, umask 022, O_EXCL, atomic rename-replace) stands for the kernel; its fidelity is checked against the real binary in the thorough tier",
				"a run counts as failing when the model of the command line says the operand cannot be processed or an injected failure actually fired",
				"SIGINT: delivered when the main task reaches a chosen mutating operation; from then on main and the handler goroutine park at every simulated-OS call and the plan (two integers) decides who proceeds - close(quit) of the scratch copy is routed through the simulator so that the handler's state (armed / handling / disarmed) is always known; a SIGINT while no handler listens is the default action (process ends) and equals a kill",
			},
			Components: gxzComponents,
		})
	})
}

// shrinkGCase proposes simpler gxz scenarios.
func shrinkGCase(c *GCase) []*GCase {
	var out []*GCase
	clone := func() *GCase {
		d := *c
		d.Files = append([]FileSpec(nil), c.Files...)
		d.Runs = append([]Inv(nil), c.Runs...)
		return &d
	}
	// drop surrounding files (never the operands)
	ops := map[string]bool{}
	for _, r := range c.Runs {
		for _, f := range r.Files {
			ops[f] = true
		}
	}
	for i, f := range c.Files {
		if ops[f.Name] {
			continue
		}
		d := clone()
		d.Files = append(d.Files[:i], d.Files[i+1:]...)
		out = append(out, d)
	}
	for i := range c.Files {
		if c.Files[i].Payload != nil {
			for _, p := range sim.ShrinkPayload(*c.Files[i].Payload) {
				d := clone()
				pp := p
				d.Files[i].Payload = &pp
				out = append(out, d)
			}
		}
	}
	last := len(c.Runs) - 1
	for _, f := range []func(*Inv){
		func(v *Inv) { v.Quiet, v.Verbose = 0, 0 },
		func(v *Inv) {
			v.Long, v.Bundle, v.FilesFirst = false, false, false
			v.DashDash = false
			for _, f := range v.Files {
				if f != "" && f[0] == '-' && f != "-" {
					v.DashDash = true // operands with a leading dash need "--"
				}
			}
		},
		func(v *Inv) { v.Keep = false },
		func(v *Inv) { v.Force = false },
		func(v *Inv) { v.Preset = 0 },
	} {
		d := clone()
		f(&d.Runs[last])
		out = append(out, d)
	}
	if len(c.Runs) > 1 {
		d := clone()
		d.Runs = d.Runs[1:]
		out = append(out, d)
	}
	return out
}
