package gxzsim

import (
	_ "verif/checks"
	"verif/cli"
)

var registerHook []func()

// Main is called from the init function that the check script adds to the
// scratch copy of cmd/gxz. It registers the gxz checks with the copy's
// unmodified main as the program under simulation and runs the command line.
func Main(gxz func()) {
	gxzMain = gxz
	for _, f := range registerHook {
		f()
	}
	cli.Run()
}
