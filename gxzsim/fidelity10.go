package gxzsim

import (
	"bufio"
	"bytes"
	"fmt"
	"os"
	"os/exec"
	"path/filepath"
	"strconv"
	"strings"
	"syscall"

	"verif/sim"
	"verif/sim/simos"
)

// faultFidelityPass validates the simulated operating system *under faults*
// against the real kernel: the same C10 scenarios are executed by the really
// built gxz binary in a real scratch directory under tools/ptstep, a ptrace
// stepper that numbers the file-system changing system calls over all threads
// of the process and can kill the process or fail a call at the n-th of them.
//
//  1. fault-free: the real sequence of file-system changing calls (kind,
//     path, byte count) must equal the simulated operation log, and exit
//     status, tree and stdout must agree;
//  2. for a sample of kill / ENOSPC / EIO plans: the same plan index applied
//     to the real process must leave exactly the simulated tree, exit status
//     (or death) and stdout;
//  3. a real SIGINT at the n-th call: the interleaving of gxz's handler
//     goroutine with main is the Go scheduler's choice there, so the outcome is
//     not compared with one simulated run; the C10 invariants are evaluated on
//     the real directory instead.
//
// Any disagreement is a fidelity failure of the simulator (exit 2, with a
// diagnostic) - never a VIOLATION: the deciding runs are the simulated ones.
func faultFidelityPass(tier string, seed uint64, cov map[string]any) (int, []string) {
	bin := filepath.Join(sim.BinDir(), "gxz-real")
	pt := filepath.Join(sim.BinDir(), "ptstep")
	for _, p := range []string{bin, pt} {
		if _, err := os.Stat(p); err != nil {
			cov["fault_fidelity"] = "not run: " + filepath.Base(p) + " missing (no C compiler or ptrace refused)"
			return 0, []string{"note: real-kernel fault fidelity pass skipped (" + filepath.Base(p) + " missing)"}
		}
	}
	n, perCase, sigPerCase := 25, 5, 2
	if tier == "thorough" {
		n, perCase, sigPerCase = 600, 14, 4
	}
	base := os.Getenv("TMPDIR")
	if base == "" {
		base = "/var/tmp"
	}
	root, err := os.MkdirTemp(base, "verif-fidelity10-")
	if err != nil {
		return 2, []string{"INFRA: " + err.Error()}
	}
	defer os.RemoveAll(root)
	if bin, err = stageBinary(bin, root); err != nil {
		return 2, []string{"INFRA: " + err.Error()}
	}
	old := syscall.Umask(0o022)
	defer syscall.Umask(old)

	scen, skipped, planRuns, sigRuns, opsCompared := 0, 0, 0, 0, 0
	var anomalies []string
	kindsSeen := map[string]int{}
	dirNo := 0
	// realRun materialises the initial world in a fresh directory and runs gxz under ptstep.
	type realRes struct {
		dir    string
		ops    []string // "kind path n"
		exit   int
		killed bool // died from a signal (9: our kill; 2: SIGINT default action)
		stdout []byte
		stderr []byte
	}
	realRun := func(w0 *simos.World, args []string, ptArgs ...string) (*realRes, error) {
		dirNo++
		dir := filepath.Join(root, fmt.Sprintf("d%d", dirNo))
		if err := os.Mkdir(dir, 0o755); err != nil {
			return nil, err
		}
		if err := materialise(w0, dir); err != nil {
			return nil, err
		}
		handOver(dir)
		logf := filepath.Join(root, fmt.Sprintf("d%d.log", dirNo))
		cmdArgs := append([]string{"-d", dir, "-l", logf}, ptArgs...)
		if dropPrivileges() {
			cmdArgs = append(cmdArgs, "-u", strconv.Itoa(unprivUID))
		}
		cmdArgs = append(cmdArgs, "--", bin)
		cmdArgs = append(cmdArgs, args...)
		cmd := exec.Command(pt, cmdArgs...)
		// no garbage collection in the real process: gxz leaks the input descriptor
		// when an operand is refused after it was opened, and the finalizer's
		// close(2) would show up in the call sequence whenever the collector runs
		cmd.Env = append(os.Environ(), "GOGC=off")
		var so, se bytes.Buffer
		cmd.Stdout, cmd.Stderr = &so, &se
		cmd.Stdin = bytes.NewReader(nil)
		rerr := cmd.Run()
		if _, ok := rerr.(*exec.ExitError); rerr != nil && !ok {
			return nil, rerr
		}
		r := &realRes{dir: dir, stdout: so.Bytes(), stderr: se.Bytes(), exit: -1}
		f, err := os.Open(logf)
		if err != nil {
			return nil, err
		}
		defer f.Close()
		defer os.Remove(logf)
		sc := bufio.NewScanner(f)
		sc.Buffer(make([]byte, 1<<20), 1<<20)
		for sc.Scan() {
			l := sc.Text()
			switch {
			case strings.HasPrefix(l, "exit "):
				r.exit, _ = strconv.Atoi(l[5:])
			case strings.HasPrefix(l, "signal "):
				r.killed = true
			default:
				if i := strings.IndexByte(l, ' '); i > 0 {
					r.ops = append(r.ops, l[i+1:])
				}
			}
		}
		if r.exit < 0 && !r.killed {
			return nil, fmt.Errorf("ptstep reported neither exit nor signal (its stderr: %s)", firstLine(se.Bytes()))
		}
		return r, nil
	}
	var w0 *simos.World // initial world of the scenario at hand
	simOps := func(w *simos.World) []string {
		var out []string
		for _, o := range w.Ops {
			if o.Mut > 0 {
				p := o.Path
				if o.Kind == "write-stdout" {
					p = "<stdout>"
				}
				if nd := w0.Get(p); (o.Kind == "close" || o.Kind == "write") && nd != nil && nd.Mode&os.ModeSymlink != 0 {
					p = nd.Target // ptstep names a descriptor by the file it refers to, i.e. with the link followed
				}
				n := o.N
				if o.Kind != "write" && o.Kind != "write-stdout" {
					n = 0
				}
				out = append(out, fmt.Sprintf("%s %s %d", o.Kind, p, n))
			}
		}
		return out
	}

	for i := 0; scen < n && i < 20*n; i++ {
		rs := sim.Mix(seed, sim.Tag("fidelity10"), uint64(i))
		c := genC10(sim.NewRng(rs), "quick", i)
		if !c.Enumerate || len(c.Runs) != 1 || !fidelityEligible(c) {
			skipped++
			continue
		}
		js := c10Judges(c)
		j := js[0]
		args := j.v.Args()
		w0 = buildWorld(c)
		diag := func(what string, sw *simos.World, sres RunResult, rr *realRes) (int, []string) {
			lines := []string{
				fmt.Sprintf("INFRA: simulator fidelity under faults: %s (scenario %d, gxz %q)", what, i, args),
				fmt.Sprintf("  simulated: exit=%d killed=%v names=%q stderr=%q", sres.Exit, sres.Killed, sw.Names(), firstLine(sres.Stderr)),
			}
			if rr != nil {
				lines = append(lines, fmt.Sprintf("  real:      exit=%d killed=%v names=%q stderr=%q", rr.exit, rr.killed, realNames(rr.dir), firstLine(rr.stderr)))
				lines = append(lines, "  real calls: "+strings.Join(rr.ops, " | "))
			}
			lines = append(lines, "  simulated ops: "+strings.Join(simOps(sw), " | "))
			return 2, lines
		}
		// 1. fault-free
		wf := w0.Clone()
		sres := invoke(wf, args)
		rr, err := realRun(w0, args)
		if err != nil {
			return 2, []string{"INFRA: running the real gxz under ptstep: " + err.Error()}
		}
		so := simOps(wf)
		if strings.Join(so, "|") != strings.Join(rr.ops, "|") {
			return diag("the real sequence of file-system changing calls differs from the simulated operation log", wf, sres, rr)
		}
		opsCompared += len(so)
		if what := compareOutcome(wf, sres, rr.dir, rr.exit, rr.killed, rr.stdout); what != "" {
			return diag("fault-free run: "+what, wf, sres, rr)
		}
		os.RemoveAll(rr.dir)
		kinds := wf.MutKinds()
		// 2. kill / fail plans at the same operation index
		var plans []simos.Plan
		for _, p := range planList(kinds, 0, nil, 0, j.in, 0, c.PartialSeed, false) {
			if (p.KillAt > 0 || p.FailAt > 0) && p.FailAt2 == 0 && p.SigAt == 0 {
				plans = append(plans, p)
			}
		}
		pr := sim.NewRng(sim.Mix(rs, 7))
		for k := 0; k < perCase && len(plans) > 0; k++ {
			pi := pr.Intn(len(plans))
			p := plans[pi]
			plans = append(plans[:pi], plans[pi+1:]...)
			var pa []string
			if p.KillAt > 0 {
				pa = []string{"-k", strconv.Itoa(p.KillAt), "-w", p.KillWhen}
				if p.KillWhen == "mid" {
					pa = append(pa, "-m", strconv.Itoa(p.MidBytes))
				}
			} else {
				// the simulated failing write persists min(Partial, len-1) bytes
				part := p.Partial
				for _, o := range wf.Ops {
					if o.Mut == p.FailAt && part >= o.N {
						part = o.N - 1
					}
				}
				if part < 0 {
					part = 0
				}
				pa = []string{"-f", strconv.Itoa(p.FailAt), "-e", p.Errno, "-p", strconv.Itoa(part)}
			}
			wp := w0.Clone()
			wp.Plan = p
			pres := invoke(wp, args)
			prr, err := realRun(w0, args, pa...)
			if err != nil {
				return 2, []string{"INFRA: running the real gxz under ptstep: " + err.Error()}
			}
			tag := planName(p, kinds)
			kindsSeen[tag]++
			if what := compareOutcome(wp, pres, prr.dir, prr.exit, prr.killed, prr.stdout); what != "" {
				return diag(fmt.Sprintf("plan %s %+v: %s", tag, p, what), wp, pres, prr)
			}
			os.RemoveAll(prr.dir)
			planRuns++
		}
		// 3. a real SIGINT: invariants on the real directory
		// (The handler of the pinned gxz removes os.Stdout.Name() = "/dev/stdout"
		// when the output is standard output; run as root that deletes the host's
		// /dev/stdout - which is how it was noticed, DESIGN.md §6. Real runs are
		// therefore done under an unprivileged uid.)
		for k := 0; k < sigPerCase && len(kinds) > 0; k++ {
			at := pr.Range(1, len(kinds))
			// the schedule of a real run is the Go scheduler's: an invariant
			// failure counts as a fidelity failure only if it shows again
			// within five repetitions; a one-off is recorded as an anomaly
			fails, tries := 0, 1
			var firstDiag []string
			for t := 0; t < tries; t++ {
				srr, err := realRun(w0, args, "-s", strconv.Itoa(at))
				if err != nil {
					return 2, []string{"INFRA: running the real gxz under ptstep: " + err.Error()}
				}
				rw, err := worldFromDir(srr.dir)
				if err != nil {
					return 2, []string{"INFRA: " + err.Error()}
				}
				res := RunResult{Exit: srr.exit, Killed: srr.killed, Stdout: srr.stdout, Stderr: srr.stderr, World: rw}
				if srr.killed {
					res.Exit = 0
				}
				var v *sim.Violation
				for _, jk := range js {
					if v = jk.judge(res, simos.Plan{SigAt: at}, "real-sigint"); v != nil {
						break
					}
				}
				if v != nil {
					fails++
					if firstDiag == nil {
						_, firstDiag = diag(fmt.Sprintf("real SIGINT at call %d breaks an invariant that every simulated interleaving kept: %s %s", at, v.Class, v.Detail), rw, res, srr)
						tries = 6
					}
				}
				os.RemoveAll(srr.dir)
				sigRuns++
			}
			if fails > 1 {
				return 2, append(firstDiag, fmt.Sprintf("  (seen in %d of %d repetitions)", fails, tries))
			}
			if fails == 1 {
				anomalies = append(anomalies, strings.Join(firstDiag, " / "))
			}
			kindsSeen["real-sigint"]++
		}
		scen++
	}
	cov["fault_fidelity"] = map[string]any{
		"what":                        "C10 scenarios run by the really built gxz binary in a real directory under tools/ptstep (ptrace; file-system changing system calls numbered over all threads): the fault-free call sequence must equal the simulated operation log; kill before/after/mid-write and ENOSPC/EIO (with persisted prefix) at the same operation index must leave exactly the simulated tree, status and stdout; after a real SIGINT the C10 invariants are evaluated on the real directory",
		"scenarios":                   scen,
		"scenarios_skipped":           skipped,
		"calls_compared_with_the_log": opsCompared,
		"fault_plans_compared":        planRuns,
		"real_sigint_runs_judged":     sigRuns,
		"plans_by_kind":               kindsSeen,
		"disagreements":               0,
		"skipped_because":             "unreadable files (root reads them), special mode bits, multi-invocation histories",
	}
	return 0, []string{fmt.Sprintf("fault fidelity: %d scenarios, %d calls equal to the simulated log, %d kill/fail plans and %d real SIGINT runs agree with the simulation", scen, opsCompared, planRuns, sigRuns)}
}

// materialise writes the world's files, links and directories into dir.
func materialise(w *simos.World, dir string) error {
	first := map[*simos.Node]string{}
	for _, name := range w.Names() {
		nd := w.Get(name)
		p := filepath.Join(dir, name)
		if q, ok := first[nd]; ok {
			if err := os.Link(q, p); err != nil {
				return err
			}
			continue
		}
		first[nd] = p
		switch {
		case nd.Mode&os.ModeSymlink != 0:
			if err := os.Symlink(nd.Target, p); err != nil {
				return err
			}
		case nd.Mode&os.ModeDir != 0:
			if err := os.Mkdir(p, 0o755); err != nil {
				return err
			}
		default:
			if err := os.WriteFile(p, nd.Data, 0o600); err != nil {
				return err
			}
			if err := os.Chmod(p, nd.Mode); err != nil {
				return err
			}
		}
	}
	return nil
}

// worldFromDir reads a real directory back into a simulated world.
func worldFromDir(dir string) (*simos.World, error) {
	w := simos.NewWorld()
	for _, name := range realNames(dir) {
		p := filepath.Join(dir, name)
		li, err := os.Lstat(p)
		if err != nil {
			return nil, err
		}
		switch {
		case li.Mode()&os.ModeSymlink != 0:
			t, _ := os.Readlink(p)
			w.Symlink(name, t)
		case li.IsDir():
			w.Nodes[name] = &simos.Node{Mode: os.ModeDir | 0o755}
		default:
			b, err := os.ReadFile(p)
			if err != nil {
				return nil, err
			}
			w.Put(name, b, li.Mode())
		}
	}
	return w, nil
}

// compareOutcome compares a simulated outcome with a real one; "" if equal.
func compareOutcome(w *simos.World, sres RunResult, dir string, rexit int, rkilled bool, rstdout []byte) string {
	if sres.Panicked != "" {
		return "simulated gxz panicked: " + sres.Panicked
	}
	if sres.Killed != rkilled {
		return fmt.Sprintf("simulated killed=%v, real killed=%v", sres.Killed, rkilled)
	}
	if !rkilled && sres.Exit != rexit {
		return fmt.Sprintf("exit status differs (simulated %d, real %d)", sres.Exit, rexit)
	}
	if !bytes.Equal(sres.Stdout, rstdout) {
		return fmt.Sprintf("stdout differs (simulated %d bytes, real %d)", len(sres.Stdout), len(rstdout))
	}
	rn, sn := realNames(dir), w.Names()
	if fmt.Sprint(rn) != fmt.Sprint(sn) {
		return fmt.Sprintf("resulting file names differ (simulated %q, real %q)", sn, rn)
	}
	for _, name := range sn {
		nd := w.Get(name)
		p := filepath.Join(dir, name)
		li, err := os.Lstat(p)
		if err != nil {
			return err.Error()
		}
		if li.Mode()&(os.ModeSymlink|os.ModeDir) != nd.Mode&(os.ModeSymlink|os.ModeDir) {
			return fmt.Sprintf("file type of %q differs", name)
		}
		if nd.Mode&os.ModeSymlink != 0 {
			if t, _ := os.Readlink(p); t != nd.Target {
				return fmt.Sprintf("link %q points to %q, simulated %q", name, t, nd.Target)
			}
			continue
		}
		if nd.Mode&os.ModeDir != 0 {
			continue
		}
		b, err := os.ReadFile(p)
		if err != nil {
			return err.Error()
		}
		if !bytes.Equal(b, nd.Data) {
			return fmt.Sprintf("content of %q differs (simulated %d bytes, real %d)", name, len(nd.Data), len(b))
		}
		if li.Mode().Perm() != nd.Mode.Perm() {
			return fmt.Sprintf("mode of %q differs (simulated %o, real %o)", name, nd.Mode.Perm(), li.Mode().Perm())
		}
	}
	return ""
}
