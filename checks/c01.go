package checks

import (
	"io"
	"time"

	"github.com/ulikunitz/xz"

	"verif/sim"
	"verif/simio"
)

func xzReaderCfg(dictCap int, single bool) xz.ReaderConfig {
	return xz.ReaderConfig{DictCap: dictCap, SingleStream: single}
}

func newBytesSource(img []byte) io.Reader {
	return simio.NewSource(img, simio.SourcePlan{Frag: "whole"})
}

var components = map[string][]string{
	"real":    {"github.com/ulikunitz/xz (writer, reader, format)", "github.com/ulikunitz/xz/lzma (Writer, Reader, Writer2, Reader2, encoder, decoder, matchers)"},
	"stub":    {"simio.Sink (io.Writer)", "simio.Source (io.Reader)", "stored-data fault model"},
	"oracles": {"verif/ref/reflzma", "verif/ref/refxz", "verif/ref/refenc", "liblzma via cgo: " + liblzmaState()},
}

// genXZWCase draws an xz writer-history case.
func genXZWCase(r *sim.Rng, tier string, idx int, tail bool) *WCase {
	big := false
	want := 4096
	switch {
	case hugeProfile(r, tier, 400):
		big = true
		want = r.Range(2<<20, 5<<20)
		if tier != "thorough" {
			want = r.Range(2200<<10, 2600<<10)
		}
	case r.Chance(1, 12):
		want = 300 << 10
		big = r.Chance(1, 4)
	case r.Chance(1, 5):
		want = 70 << 10
	}
	cfg := GenXZCfg(r, big)
	max := maxPayloadFor(cfg.Matcher, cfg.BlockSize, cfg.DictCap, want)
	pl := sim.GenPayload(r, max)
	if want > 1<<20 {
		// large profile: force a large payload of mixed compressibility
		pl = hugePayload(r, tier, max)
	} else if m := maxPayloadFor(0, cfg.BlockSize, cfg.DictCap, want); cfg.Matcher == 1 && m > 20<<10 && r.Chance(1, 3) {
		pl = btLongPayload(r, m)
	}
	if cfg.DictCap != 0 && cfg.DictCap <= 1<<16 && r.Chance(1, 7) && (cfg.BlockSize == 0 || cfg.BlockSize > 4096) {
		if cfg.Matcher == 0 || cfg.DictCap <= 8192 {
			pl = dictAwarePayload(r, cfg.DictCap, cfg.BufSize)
		}
	}
	if want <= 1<<20 && cfg.Matcher == 0 && (cfg.BlockSize == 0 || cfg.BlockSize >= 1<<20) {
		small := cfg.DictCap != 0 && cfg.DictCap <= 1<<14
		switch {
		case tier == "src":
			// stream source of a fault engine that enumerates positions: small ones only, rarely
			if cfg.DictCap != 0 && cfg.DictCap <= 8192 && r.Chance(1, 40) {
				pl = mixedChunkPayload(r, cfg.DictCap)
			}
		case (small && r.Chance(1, 10)) || (!small && r.Chance(1, 60)):
			pl = mixedChunkPayload(r, cfg.DictCap)
		}
	}
	if rp, dc, ok := rarePayload(r, tier); ok && (cfg.BlockSize == 0 || cfg.BlockSize >= 1<<20) {
		pl, cfg.DictCap, cfg.Matcher = rp, dc, 0
	}
	n := pl.Len()
	marks := []int{65536}
	if cfg.BlockSize > 0 {
		marks = []int{int(cfg.BlockSize), 2 * int(cfg.BlockSize), 65536}
	}
	c := &WCase{Format: "xz", XZ: &cfg, Payload: pl, Ops: genHistory(r, n, false, marks, tail)}
	c.Sink.ByteWriter = r.Chance(1, 6) // a sink that also implements io.ByteWriter (bufio.Writer, bytes.Buffer)
	c.RDict = sim.Pick(r, []int{4096, 4096, 4096, 8192, 1 << 16})
	if big && r.Chance(1, 4) {
		c.RDict = 0
	}
	return c
}

func probeWCase(c *WCase, res *WResult, x *sim.Ctx) {
	n := len(res.Log)
	if n == 0 {
		x.Probe("empty-input")
	}
	if n > c.dictCap() {
		x.Probe("input-longer-than-dictionary")
	}
	if n > 65536 {
		x.Probe("input-over-64KiB")
	}
	if n > 2<<20 {
		x.Probe("input-over-2MiB")
	}
	for _, o := range c.Ops {
		if o.K == "w" && o.N == 0 {
			x.Probe("zero-length-write")
			break
		}
	}
	if res.CloseIdx >= 0 && res.CloseIdx < len(res.Calls)-1 {
		x.Probe("calls-after-close")
	}
	if c.Format == "xz" {
		if c.XZ.BlockSize > 0 && int64(n) > c.XZ.BlockSize {
			x.Probe("multi-block")
			for _, o := range c.Ops {
				if o.K == "w" && int64(o.N) > c.XZ.BlockSize {
					x.Probe("block-rotation-inside-one-write")
					break
				}
			}
		}
		if c.XZ.Matcher == 1 {
			x.Probe("matcher-bintree")
		}
	}
}

func init() {
	sim.Register(sim.Spec[WCase]{
		Property:  "C01",
		Engine:    "wsim",
		Level:     "exploration",
		Technique: "deterministic simulation of writer call histories (seeded search over Write partitions, block rotation instants, redundant Close / use after Close) with the library reader over the recorded sink history as oracle",
		Rule: "case = (WriterConfig passing Verify, payload recipe, call history: payload cut into Write calls incl. zero-length ones, Close, tail of calls after Close); " +
			"non-trivial = payload non-empty or history has calls after Close; distinct = distinct scenario digests",
		Gen: func(r *sim.Rng, tier string, idx int) *WCase {
			c := genXZWCase(r, tier, idx, true)
			if isVeryFarCase(tier, idx) {
				pl, dc := veryFarPayload(r, idx)
				c.XZ.DictCap, c.XZ.Matcher, c.XZ.BlockSize, c.XZ.BufSize = dc, 0, 0, 4096
				c.Payload, c.RDict = pl, 0
				c.Ops = []Op{{K: "w", N: pl.Len()}, {K: "c"}}
			}
			wildConfig(r, c)
			return c
		},
		Run: func(c *WCase, x *sim.Ctx) *sim.Violation {
			res := runWriter(c, x)
			if refusedWild(c, res, x) {
				return nil
			}
			probeWCase(c, res, x)
			if len(res.Log) > 0 || (res.CloseIdx >= 0 && res.CloseIdx < len(res.Calls)-1) {
				x.Nontrivial(1)
			}
			if v := checkContract(c, res, true); v != nil {
				return v
			}
			return decodeWithLibrary("xz", res.Sink.Image, res.Log, c.RDict)
		},
		Shrink: shrinkWCase,
		Runs: func(tier string) int {
			if tier == "thorough" {
				return 1500000
			}
			return 30000
		},
		Budget: func(tier string) time.Duration {
			if tier == "thorough" {
				return 20 * time.Minute
			}
			return 45 * time.Second
		},
		RunDeadline:      60 * time.Second,
		StallIsViolation: true,
		Assumptions: []string{
			"the sink never fails in this check (C09 covers failing sinks)",
			"configurations are drawn from the boundary set of DESIGN.md §2.4, payloads from the listed families; the input x configuration axes are sampled, not enumerated",
			"decoding uses the library's own xz.Reader (as the property states); independent validity is C02",
		},
		Components: components,
	})
}
