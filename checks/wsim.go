package checks

import (
	"fmt"
	"io"
	"math"

	"github.com/ulikunitz/xz"
	"github.com/ulikunitz/xz/lzma"

	"verif/sim"
	"verif/simio"
)

// Op is one API call of a writer history: w = Write of N bytes, f = Flush,
// c = Close.
type Op struct {
	K string `json:"k"`
	N int    `json:"n,omitempty"`
	// Via (writes only): "" = w.Write(p); "copy" = io.Copy(w, src) from a plain
	// io.Reader delivering p in pieces of at most C bytes and io.EOF on a call of
	// its own; "copy-eof" = the same, the last piece returned together with
	// io.EOF (as flate, tar or HTTP body readers do). Whether the writer has a
	// ReadFrom method of its own decides which code io.Copy runs.
	Via string `json:"via,omitempty"`
	C   int    `json:"c,omitempty"`
}

// plainSource is the io.Reader behind the "copy" ops: no WriteTo, no other method.
type plainSource struct {
	p       []byte
	c       int
	withEOF bool
}

func (s *plainSource) Read(q []byte) (int, error) {
	if len(s.p) == 0 {
		return 0, io.EOF
	}
	n := len(s.p)
	if s.c > 0 && n > s.c {
		n = s.c
	}
	if n > len(q) {
		n = len(q)
	}
	copy(q, s.p[:n])
	s.p = s.p[n:]
	if len(s.p) == 0 && s.withEOF {
		return n, io.EOF
	}
	return n, nil
}

// WCase is a writer-history scenario: one writer, one payload, one call
// history, one sink plan.
type WCase struct {
	// Probe (C08): not one history but a feedback-driven family of them, see
	// runMarginProbe.
	Probe   *MarginProbe   `json:"probe,omitempty"`
	Format  string         `json:"format"` // xz | lzma | lzma2
	XZ      *XZCfg         `json:"xz,omitempty"`
	LZ      *LZCfg         `json:"lz,omitempty"`
	L2      *L2Cfg         `json:"l2,omitempty"`
	Payload sim.Payload    `json:"payload"`
	Ops     []Op           `json:"ops"`
	Sink    simio.SinkPlan `json:"sink,omitempty"`
	// RDict is the DictCap given to the library reader used as oracle (0 = default).
	RDict int `json:"rdict,omitempty"`
	// Only restricts enumeration engines to a single fault index (0 = all).
	Only int `json:"only,omitempty"`
	// Wild: the configuration was drawn from outside the space the format and
	// the documentation allow (see wildConfig). The constructor refusing it is
	// the expected answer and no verdict; if the library accepts it, everything
	// it then emits is judged like any other output.
	Wild bool `json:"wild,omitempty"`
}

// wildConfig moves, in one case out of 20, one field of an xz or LZMA2 writer
// configuration out of its legal range: the properties say "every configuration
// the library accepts", so the edge of what it accepts is part of the space.
func wildConfig(r *sim.Rng, c *WCase) {
	if !r.Chance(1, 20) || c.Payload.Len() > 1<<16 || c.Probe != nil {
		return
	}
	var lc, lp, pb, dict, buf *int
	var noProps *bool
	var matcher *byte
	switch {
	case c.XZ != nil:
		lc, lp, pb, dict, buf, noProps, matcher = &c.XZ.LC, &c.XZ.LP, &c.XZ.PB, &c.XZ.DictCap, &c.XZ.BufSize, &c.XZ.NoProps, &c.XZ.Matcher
	case c.L2 != nil:
		lc, lp, pb, dict, buf, noProps, matcher = &c.L2.LC, &c.L2.LP, &c.L2.PB, &c.L2.DictCap, &c.L2.BufSize, &c.L2.NoProps, &c.L2.Matcher
	case c.LZ != nil:
		lc, lp, pb, dict, buf, noProps, matcher = &c.LZ.LC, &c.LZ.LP, &c.LZ.PB, &c.LZ.DictCap, &c.LZ.BufSize, &c.LZ.NoProps, &c.LZ.Matcher
	default:
		return
	}
	k := r.Intn(7)
	if c.LZ != nil && k < 2 {
		// the classic format allows every lc 0..8 with every lp 0..4
		k = 2 + r.Intn(2)
		if r.Chance(1, 4) {
			c.LZ.SizeInHeader, c.LZ.Size = true, -int64(r.Range(1, 5000)) // a negative size
			c.Wild = true
			return
		}
	}
	switch k {
	case 0, 1:
		// literal parameters: each within its own range, the sum (LZMA2: at most 4) not
		*lc, *lp, *noProps = r.Intn(9), r.Intn(5), false
		if *lc+*lp <= 4 {
			*lc = 5 - *lp + r.Intn(4)
		}
	case 2:
		*lc, *lp, *noProps = sim.Pick(r, []int{9, 12, -1, 0, 4}), sim.Pick(r, []int{5, 8, -1}), false
	case 3:
		*pb, *noProps = sim.Pick(r, []int{5, 6, 9, -1}), false
	case 4:
		*dict = sim.Pick(r, []int{1, 100, 4095, -1, -4096})
	case 5:
		// too small, negative, or so large that no buffer of that size can exist
		// (refusing is the only sane answer; nothing of that size is allocated)
		*buf = sim.Pick(r, []int{1, 100, 272, -1, 1 << 62, math.MaxInt64, math.MaxInt64 - 8<<20})
	case 6:
		if c.XZ != nil && !c.XZ.NoCheckSum && r.Bool() {
			c.XZ.CheckSum = sim.Pick(r, []byte{2, 3, 5, 7, 0x0b, 0x0f, 0x10, 0xff})
		} else {
			*matcher = sim.Pick(r, []byte{3, 7, 255})
		}
	}
	c.Wild = true
}

// refusedWild reports (and counts) the expected end of a wild case.
func refusedWild(c *WCase, res *WResult, x *sim.Ctx) bool {
	if !c.Wild {
		return false
	}
	if res.NewErr != nil && res.NewPanic == nil {
		x.Count("configurations outside the legal space refused by the constructor", 1)
		return true
	}
	x.Probe("illegal-configuration-accepted")
	return false
}

// CallRes is the observed result of one API call.
type CallRes struct {
	Op         Op
	Want       int // len(p) for writes
	N          int
	Err        error
	Panic      *PanicInfo
	SinkBefore int // sink calls before
	SinkAfter  int
	ImgAfter   int // sink image length after the call
	LogAfter   int // model log length after the call
}

// WResult is the recorded history of a writer run.
type WResult struct {
	NewErr   error
	NewPanic *PanicInfo
	Calls    []CallRes
	Sink     *simio.Sink
	Log      []byte // bytes accepted by the writer before Close
	CloseIdx int    // index in Calls of the first Close (-1 if none)
	AnyErr   bool   // some call (or the constructor) returned an error
	AnyPanic bool
}

type writerAPI interface {
	Write(p []byte) (int, error)
	Close() error
}

type flusher interface{ Flush() error }

func (c *WCase) dictCap() int {
	switch c.Format {
	case "xz":
		return c.XZ.EffDictCap()
	case "lzma":
		return c.LZ.EffDictCap()
	}
	return c.L2.EffDictCap()
}

// dictCapField returns pointers to the DictCap, BufSize and LC fields of the
// configuration the case uses.
func (c *WCase) dictCapField() [3]*int {
	switch {
	case c.XZ != nil:
		return [3]*int{&c.XZ.DictCap, &c.XZ.BufSize, &c.XZ.LC}
	case c.LZ != nil:
		return [3]*int{&c.LZ.DictCap, &c.LZ.BufSize, &c.LZ.LC}
	case c.L2 != nil:
		return [3]*int{&c.L2.DictCap, &c.L2.BufSize, &c.L2.LC}
	}
	return [3]*int{}
}

// runWriter executes the history of c against the real library writer behind
// a simulated sink and records everything observable.
func runWriter(c *WCase, x *sim.Ctx) *WResult {
	res := &WResult{CloseIdx: -1}
	sink := simio.NewSink(c.Sink)
	sink.OnCall = x.Yield
	res.Sink = sink
	yield := func() {
		if x.Yield != nil {
			x.Yield()
		}
	}
	yield()
	data := c.Payload.Bytes()
	var w writerAPI
	x.Ev("new %s sinkplan=%+v", c.Format, c.Sink)
	// A caller may keep one Properties value for all its writers and re-tune
	// it for each: the writer has to take what it needs when it is created.
	// (No scheduling point inside the constructor then: the value must stay
	// as the creating task set it until the constructor returns.)
	share := func(pp **lzma.Properties) {
		sp, _ := x.Shared.(*lzma.Properties)
		if sp == nil || *pp == nil {
			return
		}
		*sp = **pp
		*pp = sp
		sink.OnCall = nil
	}
	res.NewPanic = guard(func() {
		switch c.Format {
		case "xz":
			cfg := c.XZ.lib()
			share(&cfg.Properties)
			if *c.XZ == (XZCfg{NoProps: true}) {
				// all defaults: the package-level constructor
				ww, err := xz.NewWriter(sink.Writer())
				res.NewErr = err
				if err == nil {
					w = ww
				}
				break
			}
			ww, err := cfg.NewWriter(sink.Writer())
			res.NewErr = err
			if err == nil {
				w = ww
			}
		case "lzma":
			cfg := c.LZ.lib()
			share(&cfg.Properties)
			if *c.LZ == (LZCfg{NoProps: true}) {
				ww, err := lzma.NewWriter(sink.Writer())
				res.NewErr = err
				if err == nil {
					w = ww
				}
				break
			}
			ww, err := cfg.NewWriter(sink.Writer())
			res.NewErr = err
			if err == nil {
				w = ww
			}
		case "lzma2":
			cfg := c.L2.lib()
			share(&cfg.Properties)
			if *c.L2 == (L2Cfg{NoProps: true}) {
				ww, err := lzma.NewWriter2(sink.Writer())
				res.NewErr = err
				if err == nil {
					w = ww
				}
				break
			}
			ww, err := cfg.NewWriter2(sink.Writer())
			res.NewErr = err
			if err == nil {
				w = ww
			}
		default:
			sim.Infra("unknown format %q", c.Format)
		}
	})
	sink.OnCall = x.Yield
	x.Step("api", 1)
	x.Ev("new -> err=%v panic=%v sinkcalls=%d img=%d", res.NewErr, res.NewPanic != nil, sink.Calls, len(sink.Image))
	if res.NewPanic != nil {
		res.AnyPanic = true
		return res
	}
	if res.NewErr != nil {
		res.AnyErr = true
		return res
	}
	off := 0
	closed := false
	for _, op := range c.Ops {
		cr := CallRes{Op: op, SinkBefore: sink.Calls}
		yield()
		switch op.K {
		case "w":
			var p []byte
			if !closed {
				n := op.N
				if n > len(data)-off {
					n = len(data) - off
				}
				p = data[off : off+n]
			} else {
				n := op.N
				if n > len(data) {
					n = len(data)
				}
				p = data[:n]
			}
			cr.Want = len(p)
			if op.Via != "" {
				src := &plainSource{p: p, c: op.C, withEOF: op.Via == "copy-eof"}
				cr.Panic = guard(func() {
					var n64 int64
					n64, cr.Err = io.Copy(w, src)
					cr.N = int(n64)
				})
				x.Probe("write-through-io.Copy")
			} else {
				cr.Panic = guard(func() { cr.N, cr.Err = w.Write(p) })
			}
			if !closed && cr.Panic == nil {
				k := cr.N
				if k < 0 {
					k = 0
				}
				if k > len(p) {
					k = len(p)
				}
				res.Log = append(res.Log, p[:k]...)
				off += len(p) // the caller moves on regardless (it does not retry)
			}
			x.Shape("w" + sim.Bucket(len(p)))
		case "f":
			fl, ok := w.(flusher)
			if !ok {
				continue
			}
			cr.Panic = guard(func() { cr.Err = fl.Flush() })
			x.Shape("f")
		case "c":
			cr.Panic = guard(func() { cr.Err = w.Close() })
			if !closed {
				res.CloseIdx = len(res.Calls)
			}
			closed = true
			x.Shape("c")
		default:
			sim.Infra("unknown op %q", op.K)
		}
		cr.SinkAfter = sink.Calls
		cr.ImgAfter = len(sink.Image)
		cr.LogAfter = len(res.Log)
		if cr.Err != nil {
			res.AnyErr = true
			x.Shape("E")
		}
		if cr.Panic != nil {
			res.AnyPanic = true
			x.Shape("P")
		}
		x.Step("api", 1)
		x.Ev("%s(%d) -> n=%d err=%v panic=%v sinkcalls=%d img=%d", op.K, cr.Want, cr.N, cr.Err, cr.Panic != nil, sink.Calls, len(sink.Image))
		res.Calls = append(res.Calls, cr)
	}
	x.Step("sink", int64(sink.Calls))
	x.EvBytes("image", sink.Image)
	return res
}

// genHistory cuts n payload bytes into Write calls and adds Close and a tail.
// flush: allow Flush ops. marks: sizes at which cuts are placed on purpose.
func genHistory(r *sim.Rng, n int, flush bool, marks []int, tail bool) []Op {
	var ops []Op
	left := n
	style := r.Intn(5)
	emitFlush := func() {
		if flush && r.Chance(1, 4) {
			ops = append(ops, Op{K: "f"})
			if r.Chance(1, 4) {
				ops = append(ops, Op{K: "f"})
			}
		}
	}
	if flush && r.Chance(1, 6) {
		ops = append(ops, Op{K: "f"}) // flush on a fresh writer
	}
	pos := 0
	for left > 0 && len(ops) < 56 {
		var k int
		switch style {
		case 0:
			k = left // one write
		case 1:
			k = r.Range(1, 16)
		case 2:
			k = r.Range(0, left)
		case 3:
			k = sim.Pick(r, []int{0, 1, 2, 7, 273, 274, 4096, 65536, left})
		default:
			// cut at a mark +-1
			k = left
			for _, m := range marks {
				if m > pos {
					k = m - pos + r.Range(-1, 1)
					break
				}
			}
			if k < 0 {
				k = 0
			}
		}
		if k > left {
			k = left
		}
		if len(ops) >= 54 {
			k = left
		}
		ops = append(ops, Op{K: "w", N: k})
		left -= k
		pos += k
		if r.Chance(1, 10) {
			ops = append(ops, Op{K: "w", N: 0})
		}
		emitFlush()
	}
	if n == 0 && r.Bool() {
		ops = append(ops, Op{K: "w", N: 0})
	}
	if flush && r.Chance(1, 3) {
		ops = append(ops, Op{K: "f"})
	}
	if r.Chance(1, 8) {
		// some or all of the writes go through io.Copy from a plain reader
		all := r.Bool()
		for i := range ops {
			if ops[i].K == "w" && ops[i].N > 0 && (all || r.Chance(1, 3)) {
				ops[i].Via = sim.Pick(r, []string{"copy", "copy-eof", "copy-eof"})
				ops[i].C = sim.Pick(r, []int{0, 0, 1, 7, 4096, 32768, 65536, 70000})
			}
		}
	}
	ops = append(ops, Op{K: "c"})
	if tail {
		for i, k := 0, r.Weighted([]int{3, 3, 2, 1}); i < k; i++ {
			switch r.Intn(4) {
			case 0:
				ops = append(ops, Op{K: "c"})
			case 1:
				ops = append(ops, Op{K: "w", N: r.Range(1, 100)})
			case 2:
				ops = append(ops, Op{K: "w", N: 0})
			default:
				if flush {
					ops = append(ops, Op{K: "f"})
				} else {
					ops = append(ops, Op{K: "c"})
				}
			}
		}
	}
	return ops
}

// shrinkWCase proposes simpler writer cases.
func shrinkWCase(c *WCase) []*WCase {
	if c.Probe != nil {
		return nil
	}
	var out []*WCase
	clone := func() *WCase {
		d := *c
		d.Ops = append([]Op(nil), c.Ops...)
		if c.XZ != nil {
			v := *c.XZ
			d.XZ = &v
		}
		if c.LZ != nil {
			v := *c.LZ
			d.LZ = &v
		}
		if c.L2 != nil {
			v := *c.L2
			d.L2 = &v
		}
		return &d
	}
	// fewer ops: merge all writes into one, drop single ops
	nw := 0
	total := 0
	for _, o := range c.Ops {
		if o.K == "w" {
			nw++
			total += o.N
		}
	}
	if nw > 1 {
		d := clone()
		d.Ops = nil
		done := false
		for _, o := range c.Ops {
			if o.K == "c" && !done {
				d.Ops = append(d.Ops, Op{K: "w", N: total})
				done = true
			}
			if o.K != "w" || done {
				d.Ops = append(d.Ops, o)
			}
		}
		out = append(out, d)
	}
	for i := range c.Ops {
		if c.Ops[i].K == "c" && i == firstClose(c.Ops) {
			continue
		}
		d := clone()
		d.Ops = append(d.Ops[:i], d.Ops[i+1:]...)
		out = append(out, d)
	}
	// payload: a shorter payload needs the writes re-cut; scale them
	n := c.Payload.Len()
	for _, p := range sim.ShrinkPayload(c.Payload) {
		d := clone()
		d.Payload = p
		m := p.Len()
		if c.LZ != nil && c.LZ.HasSize() && int64(n) == c.LZ.Size {
			d.LZ.Size = int64(m)
			if m == 0 {
				d.LZ.SizeInHeader = true
			}
		}
		if m != n {
			// keep the number of writes, rescale their sizes
			fc := firstClose(d.Ops)
			acc := 0
			for i := range d.Ops {
				if d.Ops[i].K == "w" && i < fc && n > 0 {
					d.Ops[i].N = d.Ops[i].N * m / n
					acc += d.Ops[i].N
				}
			}
			// put the remainder into the last write before close
			for i := fc - 1; i >= 0 && acc < m; i-- {
				if d.Ops[i].K == "w" {
					d.Ops[i].N += m - acc
					acc = m
				}
			}
		}
		out = append(out, d)
	}
	// configuration toward defaults
	switch c.Format {
	case "xz":
		def := XZCfg{LC: 3, LP: 0, PB: 2, DictCap: 4096, BufSize: 4096}
		for _, f := range []func(*XZCfg){
			func(x *XZCfg) { x.LC, x.LP, x.PB, x.NoProps = def.LC, def.LP, def.PB, false },
			func(x *XZCfg) { x.BufSize = def.BufSize },
			func(x *XZCfg) { x.DictCap = def.DictCap },
			func(x *XZCfg) { x.BlockSize = 0 },
			func(x *XZCfg) { x.CheckSum, x.NoCheckSum = 0, false },
			func(x *XZCfg) { x.Matcher = 0 },
		} {
			d := clone()
			f(d.XZ)
			out = append(out, d)
		}
	case "lzma":
		for _, f := range []func(*LZCfg){
			func(x *LZCfg) { x.LC, x.LP, x.PB, x.NoProps = 3, 0, 2, false },
			func(x *LZCfg) { x.BufSize = 4096 },
			func(x *LZCfg) { x.DictCap = 4096 },
			func(x *LZCfg) { x.Matcher = 0 },
		} {
			d := clone()
			f(d.LZ)
			out = append(out, d)
		}
	case "lzma2":
		for _, f := range []func(*L2Cfg){
			func(x *L2Cfg) { x.LC, x.LP, x.PB, x.NoProps = 3, 0, 2, false },
			func(x *L2Cfg) { x.BufSize = 4096 },
			func(x *L2Cfg) { x.DictCap = 4096 },
			func(x *L2Cfg) { x.Matcher = 0 },
		} {
			d := clone()
			f(d.L2)
			out = append(out, d)
		}
	}
	if c.Sink.ByteWriter {
		d := clone()
		d.Sink.ByteWriter = false
		out = append(out, d)
	}
	if c.Sink.Partial > 0 {
		d := clone()
		d.Sink.Partial = 0
		out = append(out, d)
	}
	if c.RDict != 4096 {
		d := clone()
		d.RDict = 4096
		out = append(out, d)
	}
	return out
}

func firstClose(ops []Op) int {
	for i, o := range ops {
		if o.K == "c" {
			return i
		}
	}
	return len(ops)
}

// checkContract monitors the API contract of a fault-free history:
// writes before Close accept everything, the first Close succeeds, calls
// after Close fail and emit nothing. strictAfterClose is false for the
// classic LZMA writer, whose property does not constrain calls after Close.
func checkContract(c *WCase, res *WResult, strictAfterClose bool) *sim.Violation {
	if res.NewPanic != nil {
		return sim.Viol("panic", "new:"+panicSite(res.NewPanic), "constructor panicked: %s [%s]", res.NewPanic.Value, res.NewPanic.Stack)
	}
	if res.NewErr != nil {
		return sim.Viol("new-error", c.Format, "constructor failed on a valid configuration: %v", res.NewErr)
	}
	for i, cr := range res.Calls {
		after := res.CloseIdx >= 0 && i > res.CloseIdx
		if cr.Panic != nil {
			return sim.Viol("panic", cr.Op.K+":"+panicSite(cr.Panic), "call %d %s panicked: %s [%s]", i, cr.Op.K, cr.Panic.Value, cr.Panic.Stack)
		}
		if !after {
			switch cr.Op.K {
			case "w":
				if cr.Err != nil || cr.N != cr.Want {
					how := "Write"
					if cr.Op.Via != "" {
						how = "io.Copy from a plain reader [" + cr.Op.Via + fmt.Sprintf(", pieces of %d] ", cr.Op.C)
					}
					return sim.Viol("write-error", c.Format, "call %d %s(%d bytes) returned n=%d err=%v", i, how, cr.Want, cr.N, cr.Err)
				}
			case "f":
				if cr.Err != nil {
					return sim.Viol("flush-error", c.Format, "call %d Flush returned %v", i, cr.Err)
				}
			case "c":
				if cr.Err != nil {
					return sim.Viol("close-error", c.Format, "call %d Close returned %v", i, cr.Err)
				}
			}
			continue
		}
		if !strictAfterClose {
			continue
		}
		if cr.Err == nil {
			return sim.Viol("after-close-accepted", c.Format+":"+cr.Op.K, "call %d %s after Close returned nil", i, cr.Op.K)
		}
		if cr.Op.K == "w" && cr.N != 0 {
			return sim.Viol("after-close-accepted", c.Format+":w-n", "call %d Write after Close returned n=%d", i, cr.N)
		}
		if cr.SinkAfter != cr.SinkBefore {
			return sim.Viol("after-close-emits", c.Format+":"+cr.Op.K, "call %d %s after Close made %d sink calls", i, cr.Op.K, cr.SinkAfter-cr.SinkBefore)
		}
	}
	return nil
}

// decodeWithLibrary decodes a sink image with the library's own reader of
// the matching format and checks: exactly want, clean EOF, EOF again.
func decodeWithLibrary(format string, img []byte, want []byte, rdict int) *sim.Violation {
	var rd io.Reader
	var err error
	p := guard(func() {
		switch format {
		case "xz":
			rd, err = xzReaderCfg(rdict, false).NewReader(newBytesSource(img))
		case "lzma":
			rd, err = lzma.ReaderConfig{DictCap: rdict}.NewReader(newBytesSource(img))
		case "lzma2":
			rd, err = lzma.Reader2Config{DictCap: rdict}.NewReader2(newBytesSource(img))
		}
	})
	if p != nil {
		return sim.Viol("panic", "reader-new:"+panicSite(p), "reader constructor panicked on writer output: %s [%s]", p.Value, p.Stack)
	}
	if err != nil {
		return sim.Viol("roundtrip-open-error", format, "library reader rejects the writer's output: %v", err)
	}
	var out []byte
	var rerr error
	p = guard(func() { out, rerr = readAllPlain(rd, len(want)+1<<20) })
	if p != nil {
		return sim.Viol("panic", "reader-read:"+panicSite(p), "reader panicked on writer output: %s [%s]", p.Value, p.Stack)
	}
	if rerr != io.EOF {
		return sim.Viol("roundtrip-read-error", format, "library reader fails on the writer's output after %d of %d bytes: %v", len(out), len(want), rerr)
	}
	if d := firstDiff(out, want); d >= 0 {
		return sim.Viol("roundtrip-mismatch", format, "decoded %d bytes, want %d; first difference at %d", len(out), len(want), d)
	}
	// EOF must be stable
	buf := make([]byte, 16)
	var n int
	p = guard(func() { n, rerr = rd.Read(buf) })
	if p != nil {
		return sim.Viol("panic", "reader-read-after-eof:"+panicSite(p), "reader panicked after EOF: %s", p.Value)
	}
	if n != 0 || rerr != io.EOF {
		return sim.Viol("eof-unstable", format, "Read after EOF returned n=%d err=%v", n, rerr)
	}
	return nil
}

func describeCfg(c *WCase) string {
	switch c.Format {
	case "xz":
		return fmt.Sprintf("%+v", *c.XZ)
	case "lzma":
		return fmt.Sprintf("%+v", *c.LZ)
	}
	return fmt.Sprintf("%+v", *c.L2)
}
