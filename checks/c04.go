package checks

import (
	"bytes"
	"io"
	"time"

	"verif/ref/refxz"
	"verif/sim"
)

// DFCase is a stored-data fault scenario on a valid .xz stream.
//
//	flips:  every single-bit flip
//	del:    deletion of one byte at every offset
//	ins:    insertion of one byte (0x00, 0xff, copy of neighbour) at every offset
//	seeded: bursts <= 32 bits, multi-byte insert/delete, two independent flips (N trials from Seed)
//	struct: field-level edits with re-sealed CRC32s (all kinds applicable to the stream)
type DFCase struct {
	R    RCase  `json:"r"`
	Mode string `json:"mode"`
	Seed uint64 `json:"seed,omitempty"`
	N    int    `json:"n,omitempty"`
	// Only restricts the enumeration to one fault (index in the mode's space).
	HasOnly bool `json:"has_only,omitempty"`
	Only    int  `json:"only,omitempty"`
}

func genDFStream(r *sim.Rng, tier string, needCheck bool, max int) StreamRecipe {
	for {
		var s StreamRecipe
		if r.Bool() {
			w := genXZWCase(r, "src", 0, false)
			m := max
			if w.XZ.BlockSize > 0 && int64(m) > 6*w.XZ.BlockSize {
				m = int(6 * w.XZ.BlockSize)
			}
			if w.Payload.Len() > m {
				w.Payload = sim.GenPayload(r, m)
			}
			w.Ops = []Op{{K: "w", N: w.Payload.Len()}, {K: "c"}}
			if needCheck && w.XZ.EffCheck() == 0 {
				w.XZ.NoCheckSum = false
				w.XZ.CheckSum = sim.Pick(r, []byte{1, 4, 10})
			}
			s = StreamRecipe{Kind: "lib", W: w}
		} else {
			s = StreamRecipe{Kind: "refenc-xz", Seed: r.Uint64()}
			if needCheck {
				b := s.Build()
				if f := xzSpans(b.Stream); f == nil || f.Streams[0].CheckID == 0 || len(b.Stream) > 4*max {
					continue
				}
			}
		}
		return s
	}
}

func genDFCase(r *sim.Rng, tier string, idx int) *DFCase {
	c := &DFCase{}
	c.R = RCase{Src: simioWhole(), Reads: []int{32768}, RDict: 4096}
	if r.Chance(1, 4) {
		c.R.Src = genSrcPlan(r)
		c.R.Reads = genReads(r)
	}
	max := 400
	if tier == "thorough" && r.Chance(1, 30) {
		max = 70000
	}
	switch idx % 8 {
	case 0, 1, 2:
		c.Mode = "flips"
	case 3:
		c.Mode = "del"
	case 4:
		c.Mode = "ins"
	case 5:
		c.Mode = "seeded"
		c.Seed = r.Uint64()
		c.N = 300
	default:
		c.Mode = "struct"
		c.Seed = r.Uint64()
	}
	c.R.Stream = genDFStream(r, tier, c.Mode != "struct" || r.Bool(), max)
	if c.Mode == "struct" && r.Chance(1, 3) {
		c.R.Stream = genMulti(r, tier, true)
	}
	return c
}

// checkHolds reports whether the stored check of every block of the damaged
// image would genuinely match the wrong content (a real checksum collision).
// It is only consulted when the reader reported success with different bytes.
func collision(img []byte, got []byte) bool {
	f, err := refxz.Parse(img, false)
	return err == nil && bytes.Equal(f.Content, got)
}

// c04PostErr is the schedule of reads a caller issues after the first error.
var c04PostErr = func() []int {
	out := make([]int, 24)
	for i := range out {
		out[i] = 1 << 16
	}
	return out
}()

func runDFCase(c *DFCase, x *sim.Ctx) *sim.Violation {
	b := c.R.Stream.Build()
	if b.Err != nil {
		if b.Err == errWriterFailed {
			x.Count("writer-contract-failures(left to C01)", 1)
			return nil
		}
		sim.Infra("cannot build stream: %v", b.Err)
	}
	f := xzSpans(b.Stream)
	if f == nil {
		sim.Infra("refxz rejects a stream generated as valid")
	}
	hasCheck := true
	for _, st := range f.Streams {
		if st.CheckID == 0 {
			hasCheck = false
		}
	}
	x.Shape(c.Mode)
	site, bounds := streamSites(b)
	n := len(b.Stream)
	cost := decodeCost(b, c.R.Reads)

	try := func(img []byte, what, st string, mustFail bool, idx int) *sim.Violation {
		x.Eval(1)
		x.Nontrivial(1)
		sub := sim.NewCtx(false)
		rc := c.R
		rc.PostErr = c04PostErr // a caller that keeps reading after an error
		res := runReader("xz", img, len(b.Content), &rc, len(b.Content)+1<<16, sub)
		x.Step("api", sub.Counters["steps.api"])
		x.Step("source", sub.Counters["steps.source"])
		x.Ev("%s -> open=%v final=%v out=%d", what, res.OpenErr, res.Final, len(res.Out))
		var v *sim.Violation
		if res.OpenPanic != nil || res.Panic != nil || res.BadN != nil {
			v = judgeDamaged(res, b.Content, "xz", st, what, false)
		} else if res.PostErrEOF {
			// the error was reported, the caller read on, and the reader then
			// announced a clean end of stream: "never ... after delivering
			// content that differs from the original" holds for that end too
			x.Count("clean-end-after-an-error", 1)
			all := append(append([]byte(nil), res.Out...), res.PostErrOut...)
			if !bytes.Equal(all, b.Content) && !collision(img, all) && (hasCheck || mustFail) {
				v = sim.Viol("damage-accepted", "xz:"+st+":after-error", "%s: Read reported %q, later reads went on to a clean end of stream after %d bytes in total that differ from the original %d", what, res.Final.Error(), len(all), len(b.Content))
			}
		} else if res.OpenErr == nil && res.Final == io.EOF {
			switch {
			case mustFail:
				v = sim.Viol("inconsistent-metadata-accepted", st, "%s: read to a clean end of stream (%d bytes)", what, len(res.Out))
			case !bytes.Equal(res.Out, b.Content):
				if collision(img, res.Out) {
					x.Count("genuine-checksum-collisions(not reported)", 1)
				} else if hasCheck {
					v = sim.Viol("damage-accepted", "xz:"+st, "%s: clean end of stream after delivering %d bytes that differ from the original %d (first difference %d)", what, len(res.Out), len(b.Content), firstDiff(res.Out, b.Content))
				}
			default:
				x.Count("harmless-damage(same content)", 1)
			}
		} else if res.OpenErr == nil && res.Final == nil && res.NoProg {
			v = sim.Viol("no-progress", "xz:"+st, "%s: reader neither fails nor ends", what)
		}
		if v != nil {
			nc := *c
			nc.HasOnly, nc.Only = true, idx
			v.Narrow = &nc
		}
		return v
	}

	switch c.Mode {
	case "flips":
		pos := positionsCost(n, bounds, n, cost*8)
		if c.HasOnly {
			pos = []int{c.Only / 8}
		}
		for _, p := range pos {
			for bit := 0; bit < 8; bit++ {
				if c.HasOnly && bit != c.Only%8 {
					continue
				}
				img := append([]byte(nil), b.Stream...)
				img[p] ^= 1 << uint(bit)
				x.Fault("bit-flip")
				st := site(p)
				x.Count("fault-in."+st, 1)
				if v := try(img, "bit "+itoa(bit)+" of byte "+itoa(p)+" flipped", st, false, p*8+bit); v != nil {
					return v
				}
			}
		}
	case "del":
		pos := positionsCost(n, bounds, n, cost)
		if c.HasOnly {
			pos = []int{c.Only}
		}
		for _, p := range pos {
			img := append(append([]byte(nil), b.Stream[:p]...), b.Stream[p+1:]...)
			x.Fault("byte-delete")
			st := site(p)
			x.Count("fault-in."+st, 1)
			if v := try(img, "byte "+itoa(p)+" deleted", st, false, p); v != nil {
				return v
			}
		}
	case "ins":
		pos := positionsCost(n+1, bounds, n+1, cost*3)
		if c.HasOnly {
			pos = []int{c.Only / 3}
		}
		for _, p := range pos {
			for k := 0; k < 3; k++ {
				if c.HasOnly && k != c.Only%3 {
					continue
				}
				var ins byte
				switch k {
				case 1:
					ins = 0xff
				case 2:
					if p > 0 {
						ins = b.Stream[p-1]
					} else {
						ins = b.Stream[0]
					}
				}
				img := append(append(append([]byte(nil), b.Stream[:p]...), ins), b.Stream[p:]...)
				x.Fault("byte-insert")
				st := "end"
				if p < n {
					st = site(p)
				}
				x.Count("fault-in."+st, 1)
				if v := try(img, "byte "+itoa(int(ins))+" inserted at "+itoa(p), st, false, p*3+k); v != nil {
					return v
				}
			}
		}
	case "seeded":
		for i := 0; i < c.N; i++ {
			if c.HasOnly && i != c.Only {
				continue
			}
			r := sim.NewRng(sim.Mix(c.Seed, uint64(i)))
			img := append([]byte(nil), b.Stream...)
			var what string
			p := r.Intn(n)
			switch r.Intn(4) {
			case 0: // burst <= 32 bits
				l := r.Range(2, 32)
				start := p*8 + r.Intn(8)
				for j := 0; j < l; j++ {
					bit := start + j
					if bit/8 < len(img) && (j == 0 || j == l-1 || r.Bool()) {
						img[bit/8] ^= 1 << uint(bit%8)
					}
				}
				what = "burst of " + itoa(l) + " bits at bit " + itoa(start)
				x.Fault("burst")
			case 1: // delete range
				l := r.Range(2, 40)
				if p+l > n {
					l = n - p
				}
				img = append(img[:p], img[p+l:]...)
				what = itoa(l) + " bytes deleted at " + itoa(p)
				x.Fault("range-delete")
			case 2: // insert bytes
				l := r.Range(2, 40)
				ins := r.Bytes(l)
				if r.Bool() {
					ins = make([]byte, l)
				}
				img = append(append(append([]byte(nil), img[:p]...), ins...), img[p:]...)
				what = itoa(l) + " bytes inserted at " + itoa(p)
				x.Fault("range-insert")
			default: // two independent flips
				q := r.Intn(n)
				img[p] ^= 1 << uint(r.Intn(8))
				img[q] ^= 1 << uint(r.Intn(8))
				what = "two flips at bytes " + itoa(p) + " and " + itoa(q)
				x.Fault("double-flip")
			}
			st := site(p)
			if v := try(img, what, st, false, i); v != nil {
				return v
			}
		}
	case "struct":
		edits := structEdits(b, f, sim.NewRng(c.Seed))
		for i, e := range edits {
			if c.HasOnly && i != c.Only {
				continue
			}
			// the edit must make the file invalid under the reference definition
			if _, err := refxz.Parse(e.img, false); err == nil {
				sim.Infra("structural mutator produced a still-valid file: %s", e.what)
			}
			x.Fault("field-edit")
			x.Count("edit."+e.kind, 1)
			if v := try(e.img, e.what, e.kind, true, i); v != nil {
				return v
			}
		}
	default:
		sim.Infra("unknown mode %q", c.Mode)
	}
	return nil
}

func init() {
	sim.Register(sim.Spec[DFCase]{
		Property:  "C04",
		Engine:    "dfault",
		Level:     "fault_enumeration",
		Technique: "deterministic simulation of stored-data faults between writer and reader: every single-bit flip, every one-byte deletion and insertion, seeded bursts/multi-byte edits, and a structural mutator that edits one redundant field and re-seals the CRC32s so only the targeted cross-check can object (each edit first shown to the reference parser, which must reject it)",
		Rule: "case = (valid .xz stream with a check, single- or multi-block, library- or refenc-written; read plan); fault space per case by mode: all 8*len single-bit flips | all len deletions | 3*(len+1) insertions | 300 seeded bursts<=32 bits / range edits / double flips | all applicable field edits (also on check-None and multi-stream files); " +
			"non-trivial = every faulted read; distinct = (scenario digest, fault) pairs",
		Gen:    genDFCase,
		Run:    runDFCase,
		Shrink: func(c *DFCase) []*DFCase { return nil },
		Runs: func(tier string) int {
			if tier == "thorough" {
				return 40000
			}
			return 1500
		},
		Budget: func(tier string) time.Duration {
			if tier == "thorough" {
				return 20 * time.Minute
			}
			return 50 * time.Second
		},
		RunDeadline: 120 * time.Second,
		Exhaustive:  []string{"all single-bit flips, all one-byte deletions, all one-byte insertions (3 byte values) of each sampled stream", "all applicable structural field edits of each sampled stream"},
		Assumptions: []string{
			"a genuine checksum collision (the stored check equals the check of the wrong bytes; about 2^-32 per CRC32 trial) cannot be detected by any reader; it is counted, not reported",
			"damage that leaves the decoded content identical (e.g. in bytes the range decoder never needs) is not a violation of oracle 1",
			"oracle 2 applies only to edits the reference parser rejects",
		},
		Components: components,
	})
}
