package checks

import (
	"bytes"
	"errors"
	"fmt"
	"os"
	"time"

	"verif/ref/liblzma"
	"verif/ref/reflzma"
	"verif/sim"
)

// genL2WCase draws an LZMA2 writer history with Flush calls.
func genL2WCase(r *sim.Rng, tier string, tail bool) *WCase {
	want := 4096
	big := false
	switch {
	case hugeProfile(r, tier, 300):
		want = r.Range(2<<20, 5<<20)
		if tier != "thorough" {
			want = r.Range(2200<<10, 2600<<10)
		}
		big = true
	case r.Chance(1, 10):
		want = 300 << 10
		big = r.Chance(1, 4)
	case r.Chance(1, 4):
		want = 140 << 10
	}
	cfg := GenL2Cfg(r, big)
	max := maxPayloadFor(cfg.Matcher, 0, cfg.DictCap, want)
	pl := sim.GenPayload(r, max)
	if want > 1<<20 {
		pl = hugePayload(r, tier, max)
	} else if cfg.Matcher == 1 && want > 16<<10 && r.Chance(1, 3) {
		pl = btLongPayload(r, want)
	} else if r.Chance(1, 4) && max >= 70000 {
		// incompressible segment then compressible: raw chunk, then state restore
		pl = sim.Payload{Kind: "concat", Parts: []sim.Payload{
			{Kind: "text", N: r.Range(0, 3000), Seed: r.Uint64()},
			{Kind: "prng", N: r.Range(60000, 70000), Seed: r.Uint64()},
			{Kind: "text", N: r.Range(0, 3000), Seed: r.Uint64()},
		}}
	}
	if cfg.DictCap != 0 && cfg.DictCap <= 1<<16 && r.Chance(1, 7) && (cfg.Matcher == 0 || cfg.DictCap <= 8192) {
		pl = dictAwarePayload(r, cfg.DictCap, cfg.BufSize)
	}
	if rp, dc, ok := rarePayload(r, tier); ok {
		pl, cfg.DictCap, cfg.Matcher = rp, dc, 0
	}
	n := pl.Len()
	c := &WCase{Format: "lzma2", L2: &cfg, Payload: pl, Ops: genHistory(r, n, true, []int{65536, 65536 * 2, 2 << 20}, tail)}
	c.Sink.ByteWriter = r.Chance(1, 6)
	c.RDict = sim.Pick(r, []int{4096, 4096, 8192, 1 << 16})
	return c
}

// checkL2Prefix verifies the crash-right-after-Flush image: whole chunks, no
// end chunk, decodes to exactly want; also through the library's Reader2 with
// an end chunk appended.
func checkL2Prefix(c *WCase, img, want []byte, what string, x *sim.Ctx) *sim.Violation {
	ds := int64(c.L2.EffDictCap())
	ref, err := reflzma.DecodeLZMA2(img, ds, false, false)
	if err != nil {
		site := "corrupt"
		if errors.Is(err, reflzma.ErrTruncated) {
			site = "partial-chunk"
		}
		if liblzma.Available {
			lib, _, lerr := liblzma.DecodeRawLZMA2(append(append([]byte{}, img...), 0), uint32(ds))
			if lerr == nil && bytes.Equal(lib, want) {
				sim.Infra("oracle disagreement: reflzma rejects (%v) an LZMA2 prefix that liblzma decodes correctly", err)
			}
		}
		return sim.Viol("flush-prefix-undecodable", site, "%s: sink bytes (%d) are not a whole valid chunk sequence: %v", what, len(img), err)
	}
	if ref.Ended {
		return sim.Viol("flush-prefix-undecodable", "end-chunk", "%s: sink bytes contain an end chunk before Close", what)
	}
	if ref.Consumed != len(img) {
		return sim.Viol("flush-prefix-undecodable", "partial-chunk", "%s: %d trailing bytes are not a whole chunk", what, len(img)-ref.Consumed)
	}
	if d := firstDiff(ref.Out, want); d >= 0 {
		return sim.Viol("flush-prefix-mismatch", "reflzma", "%s: sink decodes to %d bytes, %d were written before; first difference %d", what, len(ref.Out), len(want), d)
	}
	for _, ch := range ref.Chunks {
		x.Count("chunks."+ch.Kind, 1)
	}
	full := append(append([]byte{}, img...), 0)
	if v := decodeWithLibrary("lzma2", full, want, l2ReaderDict(c)); v != nil {
		v.Detail = what + " (+end chunk): " + v.Detail
		v.Class = "flush-prefix-" + v.Class
		return v
	}
	return nil
}

// MarginProbe places the most expensive operation a stream can hold right at
// the compressed-size limit of an LZMA2 chunk. Where that limit falls in terms
// of input bytes depends on the encoder, so the harness finds it by feedback:
// Write(prefix) Flush Write(noise(G) + training + long far match + tail) Close
// is run for a bisection over G until the largest G is known for which the
// long match still went into the chunk that started after the Flush (read off
// the chunk headers in the recorded sink image); then every G of a small
// window above it - the histories in which the encoder has to decide whether
// the operation still fits - must satisfy the full C08 contract.
type MarginProbe struct {
	Seed   uint64 `json:"seed"`
	Prefix int    `json:"prefix"`
	// G > 0: a single history (replay of one member of the family)
	G int `json:"g,omitempty"`
	// Trained: the family of sim.trainedPayload (adaptive model driven to its
	// limits first) instead of the "surprise" family
	Trained bool `json:"trained,omitempty"`
}

// matchEnd is the offset, behind the flush point, at which the expensive
// match of member g ends.
func (p *MarginProbe) matchEnd(g int) int {
	if p.Trained {
		return sim.Payload{Kind: "trained", A: p.Prefix, N: g}.Len() - p.Prefix - 300
	}
	return g + 150*6 + 160 + 273
}

func (p *MarginProbe) history(g int) *WCase {
	pl := sim.Payload{Kind: "surprise", A: p.Prefix, N: g, Seed: p.Seed}
	if p.Trained {
		pl.Kind = "trained"
	}
	return &WCase{Format: "lzma2", L2: &L2Cfg{NoProps: true, DictCap: 2 << 20, BufSize: 4096}, Payload: pl,
		Ops: []Op{{K: "w", N: p.Prefix}, {K: "f"}, {K: "w", N: pl.Len() - p.Prefix}, {K: "c"}}, RDict: 2 << 20}
}

func runMarginProbe(c *WCase, x *sim.Ctx) *sim.Violation {
	p := c.Probe
	x.Shape("margin-probe")
	// u1 runs one member without judging it and returns the uncompressed size
	// of the first chunk behind the flush point (-1: stored chunk or failure).
	u1 := func(g int) int {
		res := runWriter(p.history(g), sim.NewCtx(false))
		x.Eval(1)
		if len(res.Calls) < 2 || res.AnyErr || res.AnyPanic {
			return -1
		}
		at, img := res.Calls[1].ImgAfter, res.Sink.Image
		if at+3 > len(img) || img[at] == 0 {
			return -1
		}
		if img[at] < 0x80 {
			// stored after all (the compression attempt, which is where the
			// limit was met, still decided how many bytes the chunk holds)
			return (int(img[at+1])<<8 | int(img[at+2])) + 1
		}
		return (int(img[at]&0x1f)<<16 | int(img[at+1])<<8 | int(img[at+2])) + 1
	}
	// one judges a member like any other history
	one := func(g int) *sim.Violation {
		sub := sim.NewCtx(false)
		v := runL2Case(p.history(g), sub)
		x.Eval(1)
		x.Step("api", sub.Counters["steps.api"])
		x.Step("sink", sub.Counters["steps.sink"])
		if v != nil {
			nc := *c
			nc.Probe = &MarginProbe{Seed: p.Seed, Prefix: p.Prefix, G: g, Trained: p.Trained}
			v.Narrow = &nc
			v.Detail = "margin probe G=" + itoa(g) + ": " + v.Detail
		}
		return v
	}
	if p.G > 0 {
		return one(p.G)
	}
	inside := func(g, u1 int) bool { return u1 >= p.matchEnd(g) }
	lo, hi := 60000, 66500 // long match inside the chunk for lo, not for hi
	if p.Trained {
		lo, hi = 25000, 50000
	}
	if u := u1(lo); u < 0 || !inside(lo, u) {
		if v := one(lo); v != nil {
			return v
		}
		x.Count("margin-probe-not-applicable", 1)
		return nil
	}
	if u := u1(hi); u >= 0 && inside(hi, u) {
		x.Count("margin-probe-not-applicable", 1)
		return nil
	}
	for hi-lo > 1 {
		mid := (lo + hi) / 2
		if u := u1(mid); u >= 0 && inside(mid, u) {
			lo = mid
		} else {
			hi = mid
		}
	}
	x.Probe("expensive-operation-at-the-compressed-limit")
	if os.Getenv("VERIF_DEBUG") != "" {
		for g := lo - 3; g <= lo+12; g++ {
			fmt.Printf("margin probe: G=%d first chunk after the flush holds %d bytes (long match ends at %d)\n", g, u1(g), p.matchEnd(g))
		}
	}
	for g := lo - 3; g <= lo+12; g++ {
		if v := one(g); v != nil {
			return v
		}
	}
	return nil
}

func runL2Case(c *WCase, x *sim.Ctx) *sim.Violation {
	if c.Probe != nil {
		return runMarginProbe(c, x)
	}
	res := runWriter(c, x)
	if refusedWild(c, res, x) {
		return nil
	}
	probeWCase(c, res, x)
	if len(res.Log) > 0 {
		x.Nontrivial(1)
	}
	if v := checkContract(c, res, true); v != nil {
		return v
	}
	// Flush invariants
	dirty := false // data written since the last flush
	nflush := 0
	for i, cr := range res.Calls {
		if res.CloseIdx >= 0 && i >= res.CloseIdx {
			break
		}
		switch cr.Op.K {
		case "w":
			if cr.N > 0 {
				dirty = true
			}
		case "f":
			nflush++
			if !dirty {
				x.Probe("flush-with-nothing-pending")
				imgBefore := 0
				if i > 0 {
					imgBefore = res.Calls[i-1].ImgAfter
				} else {
					imgBefore = 0
				}
				if cr.SinkAfter != cr.SinkBefore || cr.ImgAfter != imgBefore {
					return sim.Viol("idle-flush-emits", "lzma2", "call %d Flush with nothing pending made %d sink calls / wrote %d bytes", i, cr.SinkAfter-cr.SinkBefore, cr.ImgAfter-imgBefore)
				}
			}
			dirty = false
			// check at most the first 6 flush points and every 5th afterwards (cost)
			if nflush <= 6 || nflush%5 == 0 {
				if v := checkL2Prefix(c, res.Sink.Image[:cr.ImgAfter], res.Log[:cr.LogAfter], "after Flush (call "+itoa(i)+")", x); v != nil {
					return v
				}
				x.Eval(1)
			}
		}
	}
	if nflush > 0 {
		x.Probe("flush")
	}
	// complete image
	img := res.Sink.Image
	ds := int64(c.L2.EffDictCap())
	ref, err := reflzma.DecodeLZMA2(img, ds, true, false)
	if err != nil {
		if liblzma.Available {
			lib, _, lerr := liblzma.DecodeRawLZMA2(img, uint32(ds))
			if lerr == nil && bytes.Equal(lib, res.Log) {
				sim.Infra("oracle disagreement: reflzma rejects (%v) what liblzma decodes correctly", err)
			}
		}
		return sim.Viol("foreign-reject", "reflzma", "reference decoder rejects the complete output: %v", err)
	}
	if ref.Consumed != len(img) {
		return sim.Viol("foreign-reject", "trailing", "%d bytes follow the end chunk", len(img)-ref.Consumed)
	}
	if d := firstDiff(ref.Out, res.Log); d >= 0 {
		return sim.Viol("foreign-decode-mismatch", "reflzma", "reference decoder yields %d bytes, written %d, first difference %d", len(ref.Out), len(res.Log), d)
	}
	probeChunks(ref.Chunks, x)
	if liblzma.Available {
		lib, _, lerr := liblzma.DecodeRawLZMA2(img, uint32(ds))
		if lerr != nil {
			return sim.Viol("foreign-reject", "oracle=liblzma", "liblzma rejects the complete output: %v", lerr)
		}
		if d := firstDiff(lib, res.Log); d >= 0 {
			return sim.Viol("foreign-decode-mismatch", "oracle=liblzma", "liblzma yields %d bytes, written %d", len(lib), len(res.Log))
		}
	}
	return decodeWithLibrary("lzma2", img, res.Log, l2ReaderDict(c))
}

// l2ReaderDict returns the DictCap for the library's Reader2: a raw LZMA2
// stream does not declare its dictionary size, so the reader must be given at
// least the writer's capacity.
func l2ReaderDict(c *WCase) int {
	d := c.L2.EffDictCap()
	if c.RDict > d {
		return c.RDict
	}
	return d
}

func probeChunks(chunks []reflzma.Chunk, x *sim.Ctx) {
	for j, ch := range chunks {
		x.Count("chunks."+ch.Kind, 1)
		if (ch.Kind == "U" || ch.Kind == "UD") && j > 0 && chunks[j-1].Kind[0] == 'L' {
			x.Probe("raw-after-lzma-chunk")
		}
		if ch.Kind[0] == 'L' && j > 0 && (chunks[j-1].Kind == "U" || chunks[j-1].Kind == "UD") {
			x.Probe("lzma-after-raw-chunk(state-restore)")
		}
		if ch.Kind[0] == 'L' && ch.Compressed > 65000 {
			x.Probe("compressed-limit-reached")
		}
		if ch.Uncompressed >= 1<<21 {
			x.Probe("uncompressed-limit-reached")
		}
	}
}

func itoa(i int) string {
	if i == 0 {
		return "0"
	}
	var b []byte
	for i > 0 {
		b = append([]byte{byte('0' + i%10)}, b...)
		i /= 10
	}
	return string(b)
}

func init() {
	sim.Register(sim.Spec[WCase]{
		Property:  "C08",
		Engine:    "wsim",
		Level:     "exploration",
		Technique: "deterministic simulation of LZMA2 writer call histories over {Write, Flush, Close, calls after Close} with Flush as durability point: the sink image at every Flush return (= crash right after the acknowledged Flush) is decoded by an independent reference decoder and by Reader2",
		Rule: "case = (Writer2Config, payload recipe, history over Write/Flush/Close + tail after Close, Flush biased around the 64 KiB / 2 MiB chunk limits, after incompressible segments, twice in a row, on a fresh writer); " +
			"invariants at each Flush return and after Close; non-trivial = non-empty payload; distinct = distinct scenario digests",
		Gen: func(r *sim.Rng, tier string, idx int) *WCase {
			if (tier == "quick" && idx%25000 == 777) || (tier == "thorough" && idx%40000 == 777) {
				return &WCase{Format: "lzma2", Probe: &MarginProbe{Seed: r.Uint64(), Prefix: r.Range(1150000, 1250000)}}
			}
			if (tier == "quick" && idx%25000 == 778) || (tier == "thorough" && idx%40000 == 778) {
				return &WCase{Format: "lzma2", Probe: &MarginProbe{Seed: r.Uint64(), Prefix: r.Range(150000, 250000), Trained: true}}
			}
			c := genL2WCase(r, tier, true)
			if isVeryFarCase(tier, idx) {
				pl, dc := veryFarPayload(r, idx)
				c.L2.DictCap, c.L2.Matcher, c.L2.BufSize = dc, 0, 4096
				c.Payload, c.RDict = pl, dc
				c.Ops = []Op{{K: "w", N: pl.Len()}, {K: "f"}, {K: "c"}}
			}
			wildConfig(r, c)
			return c
		},
		Run:    runL2Case,
		Shrink: shrinkWCase,
		Runs: func(tier string) int {
			if tier == "thorough" {
				return 1000000
			}
			return 50000
		},
		Budget: func(tier string) time.Duration {
			if tier == "thorough" {
				return 20 * time.Minute
			}
			return 45 * time.Second
		},
		RunDeadline:      60 * time.Second,
		StallIsViolation: true,
		Assumptions: []string{
			"nothing is demanded of the sink image between flushes (the property does not)",
			"'nothing pending' = no byte accepted by Write since the previous Flush (or since creation)",
			"sink never fails here (C09)",
		},
		Components: components,
	})
}
