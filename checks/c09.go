package checks

import (
	"io"
	"time"

	"verif/ref/reflzma"
	"verif/sim"
	"verif/simio"
)

// IOCase is an I/O fault scenario.
//
// writer: the history of W is first run fault-free to count the K sink calls,
// then re-run once per k in 1..K x {once, forever} x {no bytes, partial};
// reader: a valid stream behind a source that fails at every offset 0..len,
// bare and together with the last good bytes.
type IOCase struct {
	Side string `json:"side"` // writer | reader
	W    *WCase `json:"w,omitempty"`
	// StopAtError: the caller stops issuing Write/Flush after the first error
	// and goes straight to Close, Close (otherwise it carries on regardless).
	StopAtError bool   `json:"stop_at_error,omitempty"`
	PartialSeed uint64 `json:"partial_seed,omitempty"`
	R           *RCase `json:"r,omitempty"`
	// Only: a single fault (writer: k*4+variant, reader: k*2+variant)
	HasOnly bool `json:"has_only,omitempty"`
	Only    int  `json:"only,omitempty"`
}

func genIOCase(r *sim.Rng, tier string, idx int) *IOCase {
	c := &IOCase{PartialSeed: r.Uint64(), StopAtError: r.Bool()}
	if idx%2 == 0 {
		c.Side = "writer"
		var w *WCase
		switch r.Intn(3) {
		case 0:
			w = genXZWCase(r, "src", 0, false)
		case 1:
			w = &genLZWCase(r, "src", false, false).W
			w.Sink.ByteWriter = r.Chance(1, 4)
		default:
			w = genL2WCase(r, "src", false)
		}
		lim := 3000
		if r.Chance(1, 8) {
			lim = 200 << 10 // multi-chunk
		}
		if w.XZ != nil && w.XZ.BlockSize > 0 && int64(lim) > 12*w.XZ.BlockSize {
			lim = int(12 * w.XZ.BlockSize)
		}
		// (the BinaryTree matcher is quadratic on runs: every faulted repetition
		// of a 100 KB run costs seconds)
		switch {
		case w.XZ != nil:
			lim = maxPayloadFor(w.XZ.Matcher, 0, w.XZ.DictCap, lim)
		case w.LZ != nil:
			lim = maxPayloadFor(w.LZ.Matcher, 0, w.LZ.DictCap, lim)
		case w.L2 != nil:
			lim = maxPayloadFor(w.L2.Matcher, 0, w.L2.DictCap, lim)
		}
		if r.Chance(1, 10) {
			// incompressible data longer than the encoder's ring buffer: raw chunks
			// copied out of the dictionary in two pieces, several chunks per stream
			d := sim.Pick(r, []int{4096, 4096, 4097, 6144})
			b := sim.Pick(r, []int{273, 300, 1000})
			switch {
			case w.XZ != nil:
				w.XZ.DictCap, w.XZ.BufSize = d, b
				if w.XZ.BlockSize > 0 && w.XZ.BlockSize < 1<<16 {
					w.XZ.BlockSize = 0
				}
			case w.LZ != nil:
				w.LZ.DictCap, w.LZ.BufSize = d, b
			default:
				w.L2.DictCap, w.L2.BufSize = d, b
			}
			n := r.Range(d+b+1, 3*(d+b))
			w.Payload = sim.Payload{Kind: "concat", Parts: []sim.Payload{{Kind: "prng", N: n, Seed: r.Uint64()}, {Kind: "text", N: r.Range(0, 2000), Seed: r.Uint64()}}}
			n = w.Payload.Len()
			if w.LZ != nil && w.LZ.HasSize() {
				w.LZ.Size, w.LZ.SizeInHeader = int64(n), true
			}
			w.Ops = genHistory(r, n, w.Format == "lzma2", []int{65536}, false)
		} else if w.L2 != nil && r.Chance(1, 5) {
			// small uncompressed chunks (incompressible data, Flush after every
			// few bytes) laid across the end of the encoder's ring buffer: such a
			// chunk leaves the dictionary in two pieces
			d := sim.Pick(r, []int{4096, 4096, 4097, 6144})
			b := sim.Pick(r, []int{273, 300, 1000})
			w.L2.DictCap, w.L2.BufSize = d, b
			ring := d + b + 1
			first := ring*r.Range(1, 2) - r.Range(0, 500)
			ops := []Op{{K: "w", N: first}, {K: "f"}}
			n := first
			for i := r.Range(4, 14); i > 0; i-- {
				k := r.Range(1, 273)
				ops = append(ops, Op{K: "w", N: k}, Op{K: "f"})
				n += k
			}
			w.Payload = sim.Payload{Kind: "prng", N: n, Seed: r.Uint64()}
			w.Ops = append(ops, Op{K: "c"})
		} else if w.XZ != nil && r.Chance(1, 5) {
			// several blocks, each of several LZMA2 chunks (a chunk is full at
			// DictCap bytes below 64 KiB), written with few large Write calls:
			// chunks are emitted from inside a Write that crosses a block
			// boundary, so a sink fault can meet the block rotation
			d := sim.Pick(r, []int{4096, 4096, 4097, 6144, 8192})
			w.XZ.DictCap, w.XZ.BufSize = d, sim.Pick(r, []int{273, 300, 1000, 4096})
			w.XZ.BlockSize = int64(r.Range(d+500, 4*d))
			w.Payload = sim.GenPayload(r, 0)
			n := r.Range(int(w.XZ.BlockSize)+1, 3*int(w.XZ.BlockSize))
			switch r.Intn(3) {
			case 0:
				w.Payload = sim.Payload{Kind: "text", N: n, Seed: r.Uint64()}
			case 1:
				w.Payload = sim.Payload{Kind: "prng", N: n, Seed: r.Uint64()}
			default:
				w.Payload = sim.Payload{Kind: "concat", Parts: []sim.Payload{{Kind: "text", N: n / 2, Seed: r.Uint64()}, {Kind: "prng", N: n - n/2, Seed: r.Uint64()}}}
			}
			w.Ops = []Op{{K: "w", N: n}, {K: "c"}}
			if r.Bool() {
				k := r.Range(1, n-1)
				w.Ops = []Op{{K: "w", N: k}, {K: "w", N: n - k}, {K: "c"}}
			}
		} else if w.Payload.Len() > lim {
			w.Payload = sim.GenPayload(r, lim)
			n := w.Payload.Len()
			if w.LZ != nil && w.LZ.HasSize() {
				w.LZ.Size, w.LZ.SizeInHeader = int64(n), true
			}
			w.Ops = genHistory(r, n, w.Format == "lzma2", []int{65536}, false)
		}
		c.W = w
		return c
	}
	c.Side = "reader"
	rc := genCutCase(r, tier, idx) // same stream families as C05
	rc.PostEOF = nil
	if k := rc.Stream.Kind; (k == "refenc-xz" || (k == "lib" && rc.Stream.W.Format == "xz")) && r.Chance(1, 3) {
		rc.Single = true // the end-of-stream probe of SingleStream reads the source once more
	}
	c.R = rc
	return c
}

// validateImage judges a sink image for which every call returned nil.
func validateImage(w *WCase, img, log []byte, x *sim.Ctx) *sim.Violation {
	switch w.Format {
	case "xz":
		return validateXZ(w.XZ, img, log, x)
	case "lzma":
		ref, err := reflzma.DecodeAlone(img, false)
		if err != nil {
			return sim.Viol("invalid-lzma", "reflzma", "reference decoder rejects the image: %v", err)
		}
		if d := firstDiff(ref.Out, log); d >= 0 {
			return sim.Viol("foreign-decode-mismatch", "reflzma", "image decodes to %d bytes, accepted %d, first difference %d", len(ref.Out), len(log), d)
		}
	case "lzma2":
		ref, err := reflzma.DecodeLZMA2(img, int64(w.L2.EffDictCap()), true, false)
		if err != nil {
			return sim.Viol("invalid-lzma2", "reflzma", "reference decoder rejects the image: %v", err)
		}
		if d := firstDiff(ref.Out, log); d >= 0 {
			return sim.Viol("foreign-decode-mismatch", "reflzma", "image decodes to %d bytes, accepted %d, first difference %d", len(ref.Out), len(log), d)
		}
	}
	return nil
}

func sinkStructure(format string, ref []byte, off int) string {
	// the structure of the fault-free image that the failing call was writing
	switch format {
	case "xz":
		if f := xzSpans(ref); f != nil {
			return f.SpanAt(off)
		}
	case "lzma":
		if off < 13 {
			return "header"
		}
		return "body"
	case "lzma2":
		return "chunks"
	}
	return "unknown"
}

func runIOWriter(c *IOCase, x *sim.Ctx) *sim.Violation {
	w := *c.W
	w.Ops = append([]Op(nil), c.W.Ops...)
	// fault-free pass: learn K and the reference image
	w.Sink = simio.SinkPlan{ByteWriter: c.W.Sink.ByteWriter}
	base := runWriter(&w, sim.NewCtx(false))
	if base.AnyErr || base.AnyPanic {
		x.Count("writer-contract-failures(left to C01/C06/C08)", 1)
		return nil
	}
	K := base.Sink.Calls
	// offsets of each sink call in the fault-free image are not recorded by
	// call; recompute by a second pass that records cumulative lengths
	x.Shape(w.Format)
	ks := make([]int, 0, K)
	if K <= 400 {
		for k := 1; k <= K; k++ {
			ks = append(ks, k)
		}
	} else {
		// strided (ByteWriter sinks make one call per byte); first and last 64 kept
		stride := K / 300
		for k := 1; k <= K; k++ {
			if k <= 64 || k > K-64 || k%stride == 0 {
				ks = append(ks, k)
			}
		}
		x.Count("writer-cases-with-strided-k", 1)
	}
	pr := sim.NewRng(c.PartialSeed)
	for _, k := range ks {
		// variants: bit 0 fail forever, bit 1 a prefix persisted first;
		// 4 and 5: the failing call reports its full byte count with the error
		for variant := 0; variant < 6; variant++ {
			partial := pr.Range(1, 64)
			if c.HasOnly && c.Only != k*6+variant {
				continue
			}
			plan := simio.SinkPlan{FailAt: k, Forever: variant&1 == 1, ByteWriter: c.W.Sink.ByteWriter, Kind: "EIO"}
			if variant&2 != 0 {
				plan.Partial = partial
				plan.Kind = "ENOSPC"
			}
			if variant >= 4 {
				plan.FullCount, plan.Partial = true, 0
			}
			fw := w
			fw.Sink = plan
			// the history: ops until (optionally) the first error, then Close, Close
			sub := sim.NewCtx(false)
			res := runFaultedWriter(&fw, c.StopAtError, sub)
			x.Eval(1)
			x.Step("api", sub.Counters["steps.api"])
			x.Step("sink", sub.Counters["steps.sink"])
			if res.Sink.Fired == 0 {
				// the faulted run made fewer sink calls than the fault-free one
				x.Count("fault-not-reached", 1)
				continue
			}
			x.Nontrivial(1)
			kind := "sink-fail-once"
			if plan.Forever {
				kind = "sink-fail-forever"
			}
			if plan.Partial > 0 {
				kind += "-partial"
			}
			if plan.FullCount {
				kind += "-full-count"
			}
			x.Fault(kind)
			st := sinkStructure(w.Format, base.Sink.Image, len(res.Sink.Image))
			x.Count("fault-while-writing."+w.Format+"."+st, 1)
			x.Ev("k=%d variant=%d -> anyerr=%v panic=%v img=%d", k, variant, res.AnyErr, res.AnyPanic, len(res.Sink.Image))
			var v *sim.Violation
			what := "sink call " + itoa(k) + " of " + itoa(K) + " fails (" + kind + ")"
			switch {
			case res.NewPanic != nil:
				v = sim.Viol("panic", "new:"+panicSite(res.NewPanic), "%s: constructor panicked: %s [%s]", what, res.NewPanic.Value, res.NewPanic.Stack)
			case res.AnyPanic:
				for i, cr := range res.Calls {
					if cr.Panic != nil {
						v = sim.Viol("panic", cr.Op.K+":"+panicSite(cr.Panic), "%s: call %d %s panicked: %s [%s]", what, i, cr.Op.K, cr.Panic.Value, cr.Panic.Stack)
						break
					}
				}
			case !errorSurfaced(res):
				v = sim.Viol("sink-error-masked", w.Format+":"+st, "%s: the constructor and every Write, Flush and Close up to and including the first Close returned nil", what)
			}
			if v != nil {
				nc := *c
				nc.HasOnly, nc.Only = true, k*6+variant
				v.Narrow = &nc
				return v
			}
		}
	}
	// dual: a history in which every call returns nil must leave a valid stream
	if v := validateImage(&w, base.Sink.Image, base.Log, x); v != nil {
		v.Detail = "fault-free history, all calls nil: " + v.Detail
		return v
	}
	return nil
}

// errorSurfaced reports whether the constructor or any call up to and
// including the first Close returned an error. (A second Close fails with
// "already closed" on every writer; that is not the sink's error surfacing.)
func errorSurfaced(res *WResult) bool {
	if res.NewErr != nil {
		return true
	}
	for i, cr := range res.Calls {
		if cr.Err != nil {
			return true
		}
		if i == res.CloseIdx {
			break
		}
	}
	return false
}

// runFaultedWriter runs the history, then Close and Close again.
func runFaultedWriter(w *WCase, stopAtError bool, x *sim.Ctx) *WResult {
	if !stopAtError {
		ops := append([]Op(nil), w.Ops...)
		ops = append(ops, Op{K: "c"})
		ww := *w
		ww.Ops = ops
		return runWriter(&ww, x)
	}
	// find the first failing op by running prefixes would be quadratic; instead
	// run once to learn where the first error occurs, then build the history
	probe := runWriter(w, sim.NewCtx(false))
	cut := len(w.Ops)
	for i, cr := range probe.Calls {
		if cr.Err != nil || cr.Panic != nil {
			cut = i + 1
			break
		}
	}
	ops := append([]Op(nil), w.Ops[:min(cut, len(w.Ops))]...)
	hasClose := false
	for _, o := range ops {
		if o.K == "c" {
			hasClose = true
		}
	}
	if !hasClose {
		ops = append(ops, Op{K: "c"})
	}
	ops = append(ops, Op{K: "c"})
	ww := *w
	ww.Ops = ops
	return runWriter(&ww, x)
}

func runIOReader(c *IOCase, x *sim.Ctx) *sim.Violation {
	rc := c.R
	b := rc.Stream.Build()
	if b.Err != nil {
		if b.Err == errWriterFailed {
			x.Count("writer-contract-failures(left to C01/C06/C08)", 1)
			return nil
		}
		sim.Infra("cannot build stream: %v", b.Err)
	}
	x.Shape(b.Format)
	site, bounds := streamSites(b)
	n := len(b.Stream)
	pos := positionsCost(n+1, bounds, n+1, decodeCost(b, rc.Reads)*3)
	for _, k := range pos {
		// variant 0: bare error, sticky; 1: error together with the last good
		// bytes, sticky; 2: bare error once (a transient failure: the source
		// carries on afterwards) - no standard-library helper legitimately
		// drops an error that arrives without data, so it must surface too
		for variant := 0; variant < 3; variant++ {
			if c.HasOnly && c.Only != k*3+variant {
				continue
			}
			d := *rc
			d.Src.Fail, d.Src.FailAt, d.Src.WithData, d.Src.Once = true, k, variant == 1, variant == 2
			d.PostErr = c04PostErr // the caller reads on after the error
			sub := sim.NewCtx(false)
			res := runReader(b.Format, b.Stream, len(b.Content), &d, len(b.Content)+4096, sub)
			x.Eval(1)
			x.Step("api", sub.Counters["steps.api"])
			x.Step("source", sub.Counters["steps.source"])
			st := "end"
			if k < n {
				st = site(k)
			}
			if res.Src.Fired == 0 {
				x.Count("fault-not-reached", 1)
				continue
			}
			x.Nontrivial(1)
			switch variant {
			case 1:
				x.Fault("source-error-with-data")
			case 2:
				x.Fault("source-error-bare-once")
			default:
				x.Fault("source-error-bare")
			}
			x.Count("fault-at."+b.Format+"."+st, 1)
			x.Ev("k=%d variant=%d -> open=%v final=%v out=%d", k, variant, res.OpenErr, res.Final, len(res.Out))
			what := "source fails at offset " + itoa(k) + " of " + itoa(n)
			var v *sim.Violation
			fs := b.Format + ":" + st
			switch {
			case res.OpenPanic != nil:
				v = sim.Viol("panic", "open:"+panicSite(res.OpenPanic), "%s: open panicked: %s", what, res.OpenPanic.Value)
			case res.Panic != nil:
				v = sim.Viol("panic", "read:"+panicSite(res.Panic), "%s: Read panicked: %s [%s]", what, res.Panic.Value, res.Panic.Stack)
			case res.BadN != nil:
				v = sim.Viol("bad-n", b.Format, "%s: Read(len %d) returned n=%d", what, res.BadN.Len, res.BadN.N)
			case !isPrefix(res.Out, b.Content):
				v = sim.Viol("wrong-bytes-before-error", fs, "%s: delivered bytes are not a prefix of the content", what)
			case res.OpenErr != nil:
				if res.Src.BareFired > 0 && !simio.IsInjected(res.OpenErr, res.Src.Err) {
					v = sim.Viol("source-error-masked", fs+":open", "%s: constructor returned %q instead of the source's error", what, res.OpenErr.Error())
				}
			case res.Final == io.EOF:
				if len(res.Out) != len(b.Content) {
					// whatever the reader did with the error, an incomplete output must not end cleanly
					v = sim.Viol("source-error-as-eof", fs+":incomplete", "%s: clean end of stream after %d of %d bytes", what, len(res.Out), len(b.Content))
				} else if res.Src.BareFired > 0 {
					v = sim.Viol("source-error-as-eof", fs, "%s: clean end of stream after %d of %d bytes", what, len(res.Out), len(b.Content))
				} else {
					x.Count("error-delivered-with-last-needed-bytes(reader-complete)", 1)
				}
			case res.Final != nil:
				if res.Src.BareFired > 0 && !simio.IsInjected(res.Final, res.Src.Err) {
					v = sim.Viol("source-error-masked", fs, "%s: Read returned %q instead of the source's error", what, res.Final.Error())
				} else if all := len(res.Out) + len(res.PostErrOut); res.PostErrEOF && (all != len(b.Content) || !isPrefix(res.PostErrOut, b.Content[len(res.Out):])) {
					// the error was reported; the caller read on and was told that the
					// stream had ended - with content missing or wrong
					v = sim.Viol("source-error-as-eof", fs+":after-error", "%s: Read reported %q, later reads went on to a clean end of stream after %d of %d bytes", what, res.Final.Error(), all, len(b.Content))
				}
			case res.NoProg:
				v = sim.Viol("no-progress", fs, "%s: reader neither fails nor ends", what)
			}
			if v != nil {
				nc := *c
				nc.HasOnly, nc.Only = true, k*3+variant
				v.Narrow = &nc
				return v
			}
		}
	}
	return nil
}

func init() {
	sim.Register(sim.Spec[IOCase]{
		Property:  "C09",
		Engine:    "iofault",
		Level:     "fault_enumeration",
		Technique: "deterministic simulation with a fault-injecting sink and source: every sink-call index k x {fail once, fail forever} x {no bytes, partial write persisted} for xz/LZMA/LZMA2 writer histories (always finished with Close, Close), and every source offset k in 0..len x {bare error, error with data} for the three readers",
		Rule: "even indices: writer scenario (C01/C06/C08 style, sinks with and without io.ByteWriter, caller stops or carries on after the first error), K sink calls counted fault-free then each k faulted 4 ways (k strided beyond 400 calls, first/last 64 kept); odd indices: valid stream (C05 families) with the source failing at each offset 0..len, sticky, bare and with the last good bytes; " +
			"non-trivial = every faulted run in which the fault actually fired; distinct = (scenario digest, fault) pairs",
		Gen: genIOCase,
		Run: func(c *IOCase, x *sim.Ctx) *sim.Violation {
			if c.Side == "writer" {
				return runIOWriter(c, x)
			}
			return runIOReader(c, x)
		},
		Shrink: func(c *IOCase) []*IOCase { return nil },
		Runs: func(tier string) int {
			if tier == "thorough" {
				return 80000
			}
			return 900
		},
		Budget: func(tier string) time.Duration {
			if tier == "thorough" {
				return 20 * time.Minute
			}
			return 50 * time.Second
		},
		RunDeadline: 120 * time.Second,
		Exhaustive:  []string{"every sink-call index of each writer scenario with <= 400 sink calls, 4 fault variants each", "every source offset 0..len of each stream up to 16 KiB, 2 variants each"},
		Assumptions: []string{
			"the source's error is sticky (every later call fails again); io.ReadFull, io.LimitReader and byte-at-a-time adapters legitimately drop an error that arrives together with enough data and rely on seeing it again",
			"a reader that had already received everything it needs when the error arrived together with the last bytes, and never calls the source again, has no obligation (counted, not reported)",
			"the sink never returns a short count without an error",
			"an error surfaced by the constructor counts as surfaced",
		},
		Components: components,
	})
}
