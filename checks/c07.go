package checks

import (
	"bytes"
	"time"

	"verif/ref/liblzma"
	"verif/ref/reflzma"
	"verif/sim"
)

// C07Case is either a writer-side case (library output judged by foreign
// decoders) or a reader-side case (foreign stream decoded by the library).
type C07Case struct {
	Side string  `json:"side"` // writer | reader
	W    *LZCase `json:"w,omitempty"`
	R    *RCase  `json:"r,omitempty"`
}

func genAloneRCase(r *sim.Rng, tier string) *RCase {
	c := &RCase{Src: genSrcPlanZ(r), Reads: genReads(r), PostEOF: genPostEOF(r)}
	c.RDict = sim.Pick(r, []int{4096, 4096, 8192, 1 << 16, 1 << 20})
	k := r.Weighted([]int{6, 3, 1})
	if k == 1 && !liblzma.Available {
		k = 0
	}
	switch k {
	case 0:
		c.Stream = StreamRecipe{Kind: "refenc-alone", Seed: r.Uint64(), Big: r.Chance(1, 20)}
	case 1:
		max := 5000
		if r.Chance(1, 10) {
			max = 200000
		}
		pl := sim.GenPayload(r, max)
		c.Stream = StreamRecipe{Kind: "liblzma-alone", Payload: &pl, Enc: genLiblzmaOpts(r, true)}
	default:
		files := corpusFiles("lzma")
		if len(files) == 0 {
			c.Stream = StreamRecipe{Kind: "refenc-alone", Seed: r.Uint64()}
		} else {
			c.Stream = StreamRecipe{Kind: "corpus", File: sim.Pick(r, files)}
		}
	}
	if r.Chance(1, 3000) {
		// more than 8 MiB of content with matches reaching beyond the reader's default window
		c.Stream = StreamRecipe{Kind: "refenc-far-alone", Seed: r.Uint64()}
		c.Reads = []int{sim.Pick(r, []int{4096, 32768, 1 << 20, 100000})}
	}
	return c
}

// runForeignStream decodes a foreign valid stream with the library reader and
// compares with the generator content and the reference decoder (three-way).
func runForeignStream(c *RCase, x *sim.Ctx) *sim.Violation {
	b := c.Stream.Build()
	// a stream from the library's own writer is an input here, not the subject:
	// if the writer fails or the reference decoder rejects what it wrote, the
	// case is left to the writer checks and the batch goes on
	skipLib := func(why string) bool {
		if c.Stream.fromLibrary() {
			x.Count("library-written inputs "+why+" (left to the writer checks)", 1)
			return true
		}
		return false
	}
	if b.Err != nil {
		if skipLib("that could not be written") {
			return nil
		}
		sim.Infra("cannot build stream %+v: %v", c.Stream, b.Err)
	}
	x.Shape(c.Stream.Kind)
	x.Count("streams."+c.Stream.Kind, 1)
	// oracle integrity: the reference decoder must agree with the generator
	switch b.Format {
	case "lzma":
		ref, err := reflzma.DecodeAlone(b.Stream, false)
		if err != nil || !bytes.Equal(ref.Out, b.Content) {
			if skipLib("the reference decoder does not reproduce") {
				return nil
			}
			sim.Infra("oracle disagreement: reflzma does not reproduce the content of a %s stream (err=%v)", c.Stream.Kind, err)
		}
		if ref.Header.Size == 0 {
			x.Probe("zero-length-content")
		}
		if ref.EOS && ref.Header.Size >= 0 {
			x.Probe("size-and-marker")
		}
		if ref.Header.Props.LC+ref.Header.Props.LP > 4 {
			x.Probe("lc+lp>4")
		}
		probeTrace(&ref.Trace, x)
	case "lzma2":
		ref, err := reflzma.DecodeLZMA2(b.Stream, b.Dict, true, false)
		if err != nil || !bytes.Equal(ref.Out, b.Content) {
			if skipLib("the reference decoder does not reproduce") {
				return nil
			}
			sim.Infra("oracle disagreement: reflzma does not reproduce the content of a %s stream (err=%v)", c.Stream.Kind, err)
		}
		probeTrace(&ref.Trace, x)
	case "xz":
		f := xzSpans(b.Stream)
		if f == nil || !bytes.Equal(f.Content, b.Content) {
			if skipLib("the reference decoder does not reproduce") {
				return nil
			}
			sim.Infra("oracle disagreement: refxz does not reproduce the content of a %s stream", c.Stream.Kind)
		}
		for _, st := range f.Streams {
			x.Count("check-id."+string('0'+st.CheckID%16), 1)
			if len(st.Blocks) == 0 {
				x.Probe("empty-stream")
			}
			for _, bl := range st.Blocks {
				if bl.HasCompSize || bl.HasUncompSize {
					x.Probe("block-header-size-fields")
				}
				if bl.UncompSize == 0 {
					x.Probe("empty-block")
				}
				if bl.HeaderPadding > 3 {
					x.Probe("oversize-header-padding")
				}
				for _, ch := range bl.Chunks {
					x.Count("chunks."+ch.Kind, 1)
				}
				probeTrace(&bl.Trace, x)
			}
		}
	}
	if len(b.Content) > 0 {
		x.Nontrivial(1)
	}
	rc := c
	if c.RDict < 0 {
		// exactly the dictionary the stream needs (a raw LZMA2 stream does not
		// declare it): chunks larger than the reader's window then occur
		d := *c
		d.RDict = int(b.Dict)
		rc = &d
	}
	res := runReader(b.Format, b.Stream, len(b.Content), rc, 0, x)
	return checkSequentialModel(res, b.Content, b.Format)
}

func probeTrace(t *reflzma.Trace, x *sim.Ctx) {
	if t.DistAtWindowEdge > 0 {
		x.Probe("match-at-window-edge")
	}
	if t.ShortReps > 0 {
		x.Probe("short-rep")
	}
	if t.Reps[1] > 0 {
		x.Probe("rep1")
	}
	if t.Reps[2] > 0 {
		x.Probe("rep2")
	}
	if t.Reps[3] > 0 {
		x.Probe("rep3")
	}
	if t.MaxLen == 273 {
		x.Probe("len-273")
	}
	if t.MaxDist > 8<<20 {
		x.Probe("distance-beyond-8MiB")
	}
	if t.EOS {
		x.Probe("eos-marker")
	}
}

func init() {
	sim.Register(sim.Spec[C07Case]{
		Property:  "C07",
		Engine:    "wsim+rsim",
		Level:     "exploration",
		Technique: "deterministic simulation: writer histories judged by an independent reference decoder and liblzma; streams from a simulated foreign peer (spec-driven generator, liblzma encoder, frozen corpus) read by lzma.Reader under seeded source fragmentation and Read schedules",
		Rule: "even indices: writer case as C06 restricted to lc+lp<=4, output decoded by reflzma and liblzma, header truthfulness; odd indices: .lzma stream from refenc (all three termination modes, any lc/lp/pb, zero-length content) / liblzma / corpus, " +
			"read by lzma.Reader behind a fragmenting source with a Read schedule and several DictCap; non-trivial = non-empty content; distinct = distinct scenario digests",
		Gen: func(r *sim.Rng, tier string, idx int) *C07Case {
			if idx%2 == 0 {
				return &C07Case{Side: "writer", W: genLZWCase(r, tier, true, false)}
			}
			return &C07Case{Side: "reader", R: genAloneRCase(r, tier)}
		},
		Run: func(c *C07Case, x *sim.Ctx) *sim.Violation {
			x.Shape(c.Side)
			if c.Side == "writer" {
				return runLZCase(c.W, x, true)
			}
			return runForeignStream(c.R, x)
		},
		Shrink: func(c *C07Case) []*C07Case {
			var out []*C07Case
			if c.Side == "writer" {
				for _, w := range shrinkLZCase(c.W) {
					out = append(out, &C07Case{Side: "writer", W: w})
				}
			} else {
				for _, r := range shrinkRCase(c.R) {
					out = append(out, &C07Case{Side: "reader", R: r})
				}
			}
			return out
		},
		Runs: func(tier string) int {
			if tier == "thorough" {
				return 1500000
			}
			return 100000
		},
		Budget: func(tier string) time.Duration {
			if tier == "thorough" {
				return 20 * time.Minute
			}
			return 45 * time.Second
		},
		RunDeadline: 60 * time.Second,
		Assumptions: []string{
			"'the reference implementation' is liblzma 5.4.1 (when it links) plus verif/ref/reflzma, which applies liblzma's termination rules for .lzma; liblzma cannot decode lc+lp>4, those streams are judged by reflzma alone",
			"writer-contract failures (Write/Close errors on valid input) are C06's business and only counted here",
		},
		Components: components,
	})
}
