package checks

import (
	"bytes"
	"io"
	"strings"
	"time"

	"verif/ref/liblzma"
	"verif/ref/refenc"
	"verif/ref/reflzma"
	"verif/sim"
	"verif/simio"
)

// C16Case is a chunk-discipline scenario.
//
//	seq:    a sequence of chunk kinds realised as a byte stream (legal or not)
//	ctl:    a legal prefix followed by one chunk with control byte Ctl
//	writer: a writer history whose output's chunk headers are walked
type C16Case struct {
	Mode   string   `json:"mode"`
	Kinds  []string `json:"kinds,omitempty"`
	Ctl    int      `json:"ctl,omitempty"`
	Seed   uint64   `json:"seed,omitempty"`
	Reads  []int    `json:"reads,omitempty"`
	Frag   string   `json:"frag,omitempty"`
	W      *WCase   `json:"w,omitempty"`
	MaxOps int      `json:"max_ops,omitempty"`
	// Full > 0: the LZMA chunk with index Full-1 is filled to exactly FullSize
	// compressed bytes (1<<16 is the largest size its header can state)
	Full     int `json:"full,omitempty"`
	FullSize int `json:"full_size,omitempty"`
	// Dict / MaxRaw: dictionary size of the stream (default 64 KiB) and upper
	// bound of the uncompressed chunks' sizes (default 40; may exceed Dict)
	Dict   int `json:"dict,omitempty"`
	MaxRaw int `json:"max_raw,omitempty"`
	// Costly: every LZMA chunk consists of two-byte matches at far distances
	// (compressed size well above the uncompressed size)
	Costly bool `json:"costly,omitempty"`
	// BadProps > 0: the chunk with index BadProps-1 (LRN or LRND) carries lc+lp > 4
	BadProps int `json:"bad_props,omitempty"`
	// Marker > 0: the LZMA chunk with index Marker-1 ends with an end-of-payload marker
	Marker int `json:"marker,omitempty"`
}

var c16Prefixes = [][]string{{}, {"LRND"}, {"UD"}, {"LRND", "U"}, {"UD", "U"}}

// c16Seqs lists all kind sequences of length 1..4 in which "end" occurs at
// most once and only in last position (Reader2 stops at the end chunk, so
// nothing after it is ever looked at).
var c16Seqs = func() [][]string {
	var out [][]string
	var rec func(cur []string, n int)
	rec = func(cur []string, n int) {
		if len(cur) == n {
			out = append(out, append([]string(nil), cur...))
			return
		}
		for _, k := range refenc.Kinds {
			if k == "end" && len(cur) != n-1 {
				continue
			}
			rec(append(cur, k), n)
		}
	}
	for n := 1; n <= 4; n++ {
		rec(nil, n)
	}
	return out
}()

func c16EnumN() int { return len(c16Seqs) + 256*len(c16Prefixes) }

func genC16(r *sim.Rng, tier string, idx int) *C16Case {
	frag := sim.Pick(r, []string{"whole", "one", "seeded"})
	reads := genReads(r)
	if idx < len(c16Seqs) {
		return &C16Case{Mode: "seq", Kinds: c16Seqs[idx], Seed: r.Uint64(), Reads: []int{32768}, Frag: "whole", MaxOps: 8}
	}
	idx -= len(c16Seqs)
	if idx < 256*len(c16Prefixes) {
		return &C16Case{Mode: "ctl", Kinds: c16Prefixes[idx/256], Ctl: idx % 256, Seed: r.Uint64(), Reads: []int{32768}, Frag: "whole", MaxOps: 6}
	}
	if r.Chance(1, 40) {
		// a long history of uncompressed chunks, then LZMA chunks made of the most
		// expensive operations there are: legal, and far larger than their data
		kinds := []string{"UD"}
		raws := r.Range(0, 24)
		for i := 0; i < raws; i++ {
			kinds = append(kinds, "U")
		}
		c := &C16Case{Mode: "seq", Seed: r.Uint64(), Reads: reads, Frag: frag, MaxOps: r.Range(1, 60), Dict: 1 << uint(r.Range(16, 24)), MaxRaw: 1 << 16, Costly: true}
		kinds = append(kinds, sim.Pick(r, []string{"LRN", "LRND", "LRN"}))
		for i := r.Intn(3); i > 0; i-- {
			kinds = append(kinds, sim.Pick(r, []string{"L", "LR", "LRN", "U"}))
		}
		c.Kinds = append(kinds, "end")
		return c
	}
	switch r.Weighted([]int{5, 2, 3}) {
	case 0:
		// random walk, legal or with one illegal step
		n := r.Range(1, 14)
		var kinds []string
		if r.Bool() {
			kinds = refenc.RandomLegalKinds(r, n)
			if r.Chance(1, 8) {
				kinds = kinds[:len(kinds)-1] // no end chunk
			}
		} else {
			for i := 0; i < n; i++ {
				kinds = append(kinds, sim.Pick(r, refenc.Kinds[1:]))
			}
			if r.Chance(3, 4) {
				kinds = append(kinds, "end")
			}
		}
		c := &C16Case{Mode: "seq", Kinds: kinds, Seed: r.Uint64(), Reads: reads, Frag: frag, MaxOps: r.Range(1, 60)}
		if r.Chance(1, 6) {
			// a small dictionary, uncompressed chunks up to several times its size
			c.Dict = sim.Pick(r, []int{4096, 4096, 8192})
			c.MaxRaw = c.Dict * r.Range(1, 4)
		}
		if r.Chance(1, 30) {
			// a chunk header whose properties byte breaks the LZMA2 rule lc+lp <= 4
			var pn []int
			for i, k := range kinds {
				if k == "LRN" || k == "LRND" {
					pn = append(pn, i)
				}
			}
			if len(pn) > 0 {
				c.BadProps = sim.Pick(r, pn) + 1
			}
		}
		if c.BadProps == 0 && r.Chance(1, 30) {
			var lz []int
			for i, k := range kinds {
				if k[0] == 'L' {
					lz = append(lz, i)
				}
			}
			if len(lz) > 0 {
				c.Marker = sim.Pick(r, lz) + 1
			}
		}
		if r.Chance(1, 25) {
			var lz []int
			for i, k := range kinds {
				if k[0] == 'L' {
					lz = append(lz, i)
				}
			}
			if len(lz) > 0 {
				c.Full, c.FullSize = sim.Pick(r, lz)+1, sim.Pick(r, []int{1 << 16, 1 << 16, 1<<16 - 1})
			}
		}
		return c
	case 1:
		return &C16Case{Mode: "ctl", Kinds: sim.Pick(r, c16Prefixes), Ctl: r.Intn(256), Seed: r.Uint64(), Reads: reads, Frag: frag, MaxOps: r.Range(1, 30)}
	}
	if r.Bool() {
		return &C16Case{Mode: "writer", W: genL2WCase(r, tier, false)}
	}
	return &C16Case{Mode: "writer", W: genXZWCase(r, tier, 0, false)}
}

// realiseC16 builds the byte stream and the expectation for a seq/ctl case.
func realiseC16(c *C16Case) (cs *refenc.ChunkSeq, legal bool, bad int) {
	r := sim.NewRng(c.Seed)
	kinds := append([]string(nil), c.Kinds...)
	o := refenc.SeqOptions{MaxOpsPerChunk: c.MaxOps, MaxRaw: 40, DictSize: 1 << 16}
	if c.Dict > 0 {
		o.DictSize = int64(c.Dict)
	}
	if c.MaxRaw > 0 {
		o.MaxRaw = c.MaxRaw
	}
	if c.Mode == "ctl" {
		ctl := byte(c.Ctl)
		k, ok := reflzma.KindOf(ctl)
		pos := len(kinds)
		if !ok {
			// invalid control byte followed by plausible header bytes and payload
			kinds = append(kinds, "U", "end")
			g := append([]byte{ctl, 0, 4}, r.Bytes(5)...)
			o.Garbage = map[int][]byte{pos: g}
			cs = refenc.Realise(r, kinds, o)
			return cs, false, pos
		}
		if k == "end" {
			kinds = append(kinds, "end")
		} else {
			kinds = append(kinds, k, "end")
			if ctl >= 0x80 {
				hi := int(ctl & 0x1F)
				o.ForceSize = map[int]int{pos: hi<<16 + r.Range(1, 300)}
				o.DictSize = 1 << 22
			}
		}
		cs = refenc.Realise(r, kinds, o)
		if k != "end" && cs.Stream[cs.Offsets[pos]] != ctl {
			sim.Infra("generator produced control byte %#x, wanted %#x", cs.Stream[cs.Offsets[pos]], ctl)
		}
		legal, bad = refenc.Legal(kinds)
		return cs, legal, bad
	}
	if c.Full > 0 {
		o.ForceCompressed = map[int]int{c.Full - 1: c.FullSize}
	}
	if c.Costly {
		o.Costly, o.ForceSize = map[int]bool{}, map[int]int{}
		for i, k := range kinds {
			switch {
			case k[0] == 'L':
				o.Costly[i] = true
			case k[0] == 'U' && r.Chance(3, 4):
				o.ForceSize[i] = 1 << 16
			}
		}
	}
	if c.BadProps > 0 {
		o.BadProps = map[int]bool{c.BadProps - 1: true}
	}
	if c.Marker > 0 {
		o.Marker = map[int]bool{c.Marker - 1: true}
	}
	cs = refenc.Realise(r, kinds, o)
	legal, bad = refenc.Legal(kinds)
	if c.BadProps > 0 && (legal || c.BadProps-1 < bad) {
		legal, bad = false, c.BadProps-1 // the chunk with the forbidden properties is the first offence
	}
	if c.Marker > 0 && (legal || c.Marker-1 < bad) {
		legal, bad = false, c.Marker-1 // LZMA2 knows no end-of-payload marker inside a chunk
	}
	return cs, legal, bad
}

func runC16(c *C16Case, x *sim.Ctx) *sim.Violation {
	x.Shape(c.Mode)
	if c.Mode == "writer" {
		return runC16Writer(c, x)
	}
	cs, legal, bad := realiseC16(c)
	x.Shape(strings.Join(cs.Kinds, ","))
	// oracle integrity: the chunk-rule automaton, the reference decoder and
	// liblzma must agree on legality
	ref, rerr := reflzma.DecodeLZMA2(cs.Stream, cs.DictSize, true, false)
	refLegal := rerr == nil
	if refLegal != legal {
		sim.Infra("oracle disagreement on kinds %v: automaton legal=%v bad=%d, reflzma err=%v", cs.Kinds, legal, bad, rerr)
	}
	if legal && !bytes.Equal(ref.Out, cs.Content) {
		sim.Infra("oracle disagreement: reflzma content differs from generator content for %v", cs.Kinds)
	}
	if liblzma.Available {
		lib, _, lerr := liblzma.DecodeRawLZMA2(cs.Stream, uint32(cs.DictSize))
		if (lerr == nil) != legal {
			sim.Infra("oracle disagreement on kinds %v: automaton legal=%v, liblzma err=%v", cs.Kinds, legal, lerr)
		}
		if legal && !bytes.Equal(lib, cs.Content) {
			sim.Infra("oracle disagreement: liblzma content differs for %v", cs.Kinds)
		}
	}
	x.Nontrivial(1)
	if c.Full > 0 && c.Full-1 < len(cs.Offsets) && len(cs.Stream) > cs.Offsets[c.Full-1]+4 {
		o := cs.Offsets[c.Full-1]
		if int(cs.Stream[o+3])<<8|int(cs.Stream[o+4]) == 0xFFFF {
			x.Probe("compressed-chunk-of-exactly-64KiB")
		}
	}
	if legal {
		x.Count("legal-sequences", 1)
	} else if bad < len(cs.Kinds) {
		x.Count("illegal-sequences", 1)
	} else {
		x.Count("unterminated-sequences", 1)
	}
	rc := &RCase{Src: simio.SourcePlan{Frag: c.Frag, FragSeed: c.Seed}, Reads: c.Reads, PostEOF: []int{1}, RDict: int(cs.DictSize)}
	res := runReader("lzma2", cs.Stream, len(cs.Content), rc, 0, x)
	if legal {
		return checkSequentialModel(res, cs.Content, "lzma2")
	}
	if res.OpenPanic != nil {
		return sim.Viol("panic", "open:"+panicSite(res.OpenPanic), "%s", res.OpenPanic.Value)
	}
	if res.Panic != nil {
		return sim.Viol("panic", "read:"+panicSite(res.Panic), "%s [%s]", res.Panic.Value, res.Panic.Stack)
	}
	if res.BadN != nil {
		return sim.Viol("bad-n", "lzma2", "Read(len %d) returned n=%d", res.BadN.Len, res.BadN.N)
	}
	upto := cs.ContentUpTo[len(cs.ContentUpTo)-1]
	state := "start"
	if bad < len(cs.Kinds) {
		upto = cs.ContentUpTo[bad]
		state = chunkStateName(cs.Kinds[:bad])
	}
	site := "state=" + state
	if bad < len(cs.Kinds) {
		if c.Mode == "ctl" && bad == len(c.Kinds) {
			if _, ok := reflzma.KindOf(byte(c.Ctl)); !ok {
				site += ":invalid-control-byte"
			} else {
				site += ":" + cs.Kinds[bad]
			}
		} else {
			site += ":" + cs.Kinds[bad]
		}
	} else {
		site = "unterminated"
	}
	if res.OpenErr == nil && res.Final == io.EOF {
		return sim.Viol("illegal-sequence-accepted", site, "kinds %v (illegal at chunk %d) read to a clean EOF with %d bytes", cs.Kinds, bad, len(res.Out))
	}
	if len(res.Out) > upto {
		return sim.Viol("illegal-sequence-accepted", site+":overrun", "kinds %v: %d bytes delivered, the chunks before the offending chunk %d hold only %d", cs.Kinds, len(res.Out), bad, upto)
	}
	if !isPrefix(res.Out, cs.Content) {
		return sim.Viol("wrong-bytes", "lzma2", "bytes delivered before the rejection differ from the content at %d", firstDiff(res.Out, cs.Content))
	}
	if res.OpenErr == nil && res.Final == nil {
		return sim.Viol("no-progress", "lzma2", "reader neither fails nor ends")
	}
	return nil
}

// chunkStateName names the format's chunk state after a legal prefix.
func chunkStateName(prefix []string) string {
	needDict, needProps := true, true
	for _, k := range prefix {
		switch k {
		case "UD":
			needDict, needProps = false, true
		case "LRND", "LRN":
			needDict, needProps = false, false
		}
	}
	switch {
	case needDict:
		return "start"
	case needProps:
		return "need-props"
	}
	return "normal"
}

// walkChunks walks LZMA2 chunk headers without decoding.
func walkChunks(data []byte) (kinds []string, sizes [][2]int, consumed int, err string) {
	pos := 0
	for pos < len(data) {
		c := data[pos]
		k, ok := reflzma.KindOf(c)
		if !ok {
			return kinds, sizes, pos, "invalid control byte"
		}
		kinds = append(kinds, k)
		if k == "end" {
			return kinds, sizes, pos + 1, ""
		}
		if c < 0x80 {
			if pos+3 > len(data) {
				return kinds, sizes, pos, "truncated header"
			}
			u := (int(data[pos+1])<<8 | int(data[pos+2])) + 1
			sizes = append(sizes, [2]int{u, u})
			pos += 3 + u
			continue
		}
		hl := 5
		if c >= 0xC0 {
			hl = 6
		}
		if pos+hl > len(data) {
			return kinds, sizes, pos, "truncated header"
		}
		u := (int(c&0x1F)<<16 | int(data[pos+1])<<8 | int(data[pos+2])) + 1
		cm := (int(data[pos+3])<<8 | int(data[pos+4])) + 1
		sizes = append(sizes, [2]int{u, cm})
		pos += hl + cm
	}
	return kinds, sizes, pos, "no end chunk"
}

func runC16Writer(c *C16Case, x *sim.Ctx) *sim.Violation {
	res := runWriter(c.W, x)
	if res.AnyErr || res.AnyPanic || res.CloseIdx < 0 {
		x.Count("writer-contract-failures(left to C01/C08)", 1)
		return nil
	}
	if len(res.Log) > 0 {
		x.Nontrivial(1)
	}
	var bodies [][]byte
	if c.W.Format == "lzma2" {
		bodies = [][]byte{res.Sink.Image}
	} else {
		// cut the blocks' data fields out of the container using the header
		// sizes only (no decoding): header size byte, then chunks until end
		img := res.Sink.Image
		pos := 12
		for pos < len(img) && img[pos] != 0 {
			hs := (int(img[pos]) + 1) * 4
			if pos+hs > len(img) {
				return sim.Viol("writer-chunk-walk", "xz-container", "block header overruns the image")
			}
			body := img[pos+hs:]
			_, _, used, e := walkChunks(body)
			bodies = append(bodies, body[:used])
			if e != "" {
				break
			}
			pos += hs + used
			for pos%4 != 0 {
				pos++
			}
			pos += map[byte]int{0: 0, 1: 4, 4: 8, 10: 32}[c.W.XZ.EffCheck()]
		}
	}
	total := 0
	for bi, body := range bodies {
		kinds, sizes, used, e := walkChunks(body)
		if e != "" {
			return sim.Viol("writer-chunk-walk", e, "block %d: chunk walk of the writer's output stops at %d of %d: %s (kinds so far %v)", bi, used, len(body), e, kinds)
		}
		if ok, bad := refenc.Legal(kinds); !ok {
			return sim.Viol("writer-illegal-sequence", kinds[min(bad, len(kinds)-1)], "block %d: writer emitted an illegal chunk sequence %v (chunk %d)", bi, kinds, bad)
		}
		for i, s := range sizes {
			total += s[0]
			k := kinds[i]
			x.Count("chunks."+k, 1)
			if k == "U" || k == "UD" {
				if s[0] > 1<<16 {
					return sim.Viol("writer-chunk-limit", "raw", "uncompressed chunk of %d bytes", s[0])
				}
				continue
			}
			if s[0] > 1<<21 || s[1] > 1<<16 {
				return sim.Viol("writer-chunk-limit", "lzma", "LZMA chunk with %d uncompressed / %d compressed bytes", s[0], s[1])
			}
			if s[1] > 65000 {
				x.Probe("compressed-limit-reached")
			}
			if s[0] >= 1<<21 {
				x.Probe("uncompressed-limit-reached")
			}
		}
	}
	if total != len(res.Log) {
		return sim.Viol("writer-chunk-limit", "size-sum", "chunk headers announce %d bytes in total, %d were written (a size field was truncated?)", total, len(res.Log))
	}
	return nil
}

func init() {
	sim.Register(sim.Spec[C16Case]{
		Property:  "C16",
		Engine:    "rsim+wsim",
		Level:     "exploration",
		Technique: "deterministic simulation with a simulated peer that sends chunk histories: all kind sequences up to length 4 and all 256 control bytes in each reachable chunk state realised as concrete streams, seeded longer walks under fragmentation/Read schedules; oracle = chunk-rule automaton written from the format (cross-checked against the reference decoder and liblzma per case); writer side: chunk headers walked in recorded writer histories",
		Rule: "indices [0,2800): every kind sequence of length 1..4 over {end,U,UD,L,LR,LRN,LRND} with 'end' only last, realised with small payloads; next 1280: 5 legal prefixes x all 256 control bytes (payload size matching the size bits); then seeded: random walks up to 14 chunks, control bytes, and writer histories (LZMA2 and xz writers) whose chunk headers are walked; " +
			"non-trivial = every reader case, writer cases with non-empty payload; distinct = distinct scenario digests",
		Gen: genC16,
		Run: runC16,
		Shrink: func(c *C16Case) []*C16Case {
			var out []*C16Case
			if c.Mode == "writer" {
				for _, w := range shrinkWCase(c.W) {
					out = append(out, &C16Case{Mode: "writer", W: w})
				}
				return out
			}
			if c.Mode == "seq" {
				for i := range c.Kinds {
					d := *c
					d.Kinds = append(append([]string{}, c.Kinds[:i]...), c.Kinds[i+1:]...)
					out = append(out, &d)
				}
			}
			if c.MaxOps > 1 {
				d := *c
				d.MaxOps = 1
				out = append(out, &d)
			}
			if c.Frag != "whole" {
				d := *c
				d.Frag = "whole"
				out = append(out, &d)
			}
			if len(c.Reads) != 1 || c.Reads[0] != 32768 {
				d := *c
				d.Reads = []int{32768}
				out = append(out, &d)
			}
			return out
		},
		Runs: func(tier string) int {
			if tier == "thorough" {
				return 2000000
			}
			return c16EnumN() + 20000
		},
		Budget: func(tier string) time.Duration {
			if tier == "thorough" {
				return 20 * time.Minute
			}
			return 50 * time.Second
		},
		RunDeadline: 60 * time.Second,
		Exhaustive:  []string{"all chunk-kind sequences of length 1..4 ('end' only in last position)", "all 256 control-byte values after each of 5 legal prefixes (states start, normal, need-props, normal-after-raw, need-props-after-raw)"},
		Assumptions: []string{
			"Reader2 stops at the end chunk, so sequences with chunks after 'end' are not a Reader2 concern and are excluded",
			"for an illegal sequence the reader may deliver fewer bytes than the chunks before the offending one hold, never more, and must fail with a non-EOF error",
			"the legality automaton is written from liblzma's LZMA2 decoder rules; it is cross-checked against reflzma and liblzma on every case (disagreement = exit 2)",
		},
		Components: components,
	})
}
