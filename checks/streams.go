package checks

import (
	"bytes"
	"encoding/hex"
	"encoding/json"
	"os"
	"path/filepath"
	"sort"
	"sync"

	"verif/ref/liblzma"
	"verif/ref/refenc"
	"verif/ref/reflzma"
	"verif/ref/refxz"
	"verif/sim"
)

// StreamRecipe says how to obtain a valid stream and its content. Streams come
// from the simulated foreign peer (refenc), from liblzma, from the frozen
// corpus or from the library's own writers.
type StreamRecipe struct {
	Kind string `json:"kind"` // refenc-xz refenc-alone refenc-l2 lib liblzma-xz liblzma-alone corpus literal multi
	Seed uint64 `json:"seed,omitempty"`
	Big  bool   `json:"big,omitempty"`
	// lib: a writer case executed fault-free
	W *WCase `json:"w,omitempty"`
	// liblzma-*: payload and encoder options
	Payload *sim.Payload        `json:"payload,omitempty"`
	Enc     *liblzma.EncOptions `json:"enc,omitempty"`
	// corpus: file name under /verif/corpus
	File string `json:"file,omitempty"`
	// literal: explicit bytes (used by minimised replays)
	Hex        string `json:"hex,omitempty"`
	ContentHex string `json:"content_hex,omitempty"`
	Format     string `json:"format,omitempty"` // format of a literal/corpus stream
	Dict       int64  `json:"dict,omitempty"`   // dictionary size of a raw LZMA2 stream
	// multi: concatenation of xz streams with padding
	Parts   []StreamRecipe `json:"parts,omitempty"`
	LeadPad int            `json:"lead_pad,omitempty"`
	Pads    []int          `json:"pads,omitempty"`  // padding after part i
	Trail   string         `json:"trail,omitempty"` // hex bytes appended after everything (multi)
}

// Built is a realised stream.
type Built struct {
	Stream  []byte
	Content []byte
	Format  string // xz | lzma | lzma2
	Dict    int64  // for lzma2: dictionary size needed
	// for multi: contents of the parts and the offsets where each part ends
	PartEnds []int
	Err      error
}

// fromLibrary reports whether the stream, or a part of it, is written by the
// library under test (whose validity is the business of C01/C02/C06/C08).
func (s *StreamRecipe) fromLibrary() bool {
	if s.Kind == "lib" {
		return true
	}
	for i := range s.Parts {
		if s.Parts[i].fromLibrary() {
			return true
		}
	}
	return false
}

// Build realises the recipe. Errors (e.g. liblzma absent) are returned in Err.
func (s *StreamRecipe) Build() *Built {
	switch s.Kind {
	case "refenc-xz":
		x := refenc.GenXZ(sim.NewRng(s.Seed), s.Big)
		return &Built{Stream: x.Stream, Content: x.Content, Format: "xz"}
	case "refenc-alone":
		n := 300
		if s.Big {
			n = 5000
		}
		a := refenc.GenAlone(sim.NewRng(s.Seed), n)
		return &Built{Stream: a.Stream, Content: a.Content, Format: "lzma"}
	case "refenc-l2":
		r := sim.NewRng(s.Seed)
		kinds := refenc.RandomLegalKinds(r, r.Weighted([]int{1, 4, 4, 3, 2, 1, 1}))
		ds := sim.Pick(r, []int64{4096, 4096, 8192, 1 << 16, 1 << 20})
		maxRaw := r.Range(1, 300)
		if r.Chance(1, 6) {
			// uncompressed chunks larger than the dictionary (legal: the dictionary
			// size bounds distances, not chunk sizes)
			maxRaw = int(ds) * r.Range(1, 4)
			if maxRaw > 1<<16 {
				maxRaw = 1 << 16
			}
		}
		o := refenc.SeqOptions{MaxOpsPerChunk: r.Range(1, 80), MaxRaw: maxRaw, DictSize: ds, BigChunk: s.Big}
		if r.Chance(1, 12) {
			// LZMA chunks of the most expensive operations (larger than their data),
			// behind a history of full-size uncompressed chunks
			pre := []string{"UD"}
			o.ForceSize, o.Costly = map[int]int{0: 1 << 16}, map[int]bool{}
			for i := r.Range(0, 4); i > 0; i-- {
				o.ForceSize[len(pre)] = 1 << 16
				pre = append(pre, "U")
			}
			if kinds[0] == "UD" {
				kinds[0] = "U"
			}
			if kinds[0] == "U" {
				// a chunk without dictionary reset needs the properties anew behind raw chunks
				for i, k := range kinds {
					if k == "L" || k == "LR" {
						kinds[i] = "LRN"
						break
					} else if k != "U" {
						break
					}
				}
			}
			kinds = append(pre, kinds...)
			if ok, _ := refenc.Legal(kinds); !ok {
				sim.Infra("refenc-l2: costly prefix made the sequence illegal: %v", kinds)
			}
			for i, k := range kinds {
				if k[0] == 'L' {
					o.Costly[i] = true
				}
			}
			if o.DictSize < 1<<20 {
				o.DictSize = 1 << 20
			}
			ds = o.DictSize
		}
		cs := refenc.Realise(r, kinds, o)
		return &Built{Stream: cs.Stream, Content: cs.Content, Format: "lzma2", Dict: ds}
	case "refenc-empties":
		// a long run of streams without content (no block, or one empty block),
		// with stream padding between them: a reader has to get through all of
		// them inside one Read call
		r := sim.NewRng(s.Seed)
		var img []byte
		for i, n := 0, r.Range(70, 300); i < n; i++ {
			check := sim.Pick(r, []byte{refxz.CheckNone, refxz.CheckCRC32, refxz.CheckCRC64, refxz.CheckSHA256})
			var blocks []refxz.BlockSpec
			if r.Chance(1, 3) {
				blocks = []refxz.BlockSpec{{Data: []byte{0}, DictByte: byte(r.Intn(10))}}
			}
			img = append(img, refxz.BuildStream(check, blocks)...)
			if i < n-1 {
				img = append(img, make([]byte, 4*r.Weighted([]int{5, 2, 1}))...)
			}
		}
		return &Built{Stream: img, Content: nil, Format: "xz"}
	case "refenc-xz-maxdict":
		// one small block whose LZMA2 filter declares the largest dictionary the
		// format knows (size code 40 = 4 GiB - 1; xz-utils accepts it)
		r := sim.NewRng(s.Seed)
		cs := refenc.Realise(r, refenc.RandomLegalKinds(r, r.Range(1, 3)), refenc.SeqOptions{MaxOpsPerChunk: 20, DictSize: 1 << 16})
		img := refxz.BuildStream(sim.Pick(r, []byte{refxz.CheckNone, refxz.CheckCRC32, refxz.CheckCRC64}), []refxz.BlockSpec{{Data: cs.Stream, Content: cs.Content, DictByte: 40}})
		return &Built{Stream: img, Content: cs.Content, Format: "xz"}
	case "refenc-far-xz", "refenc-far-alone", "refenc-far-l2":
		f := refenc.GenFar(sim.NewRng(s.Seed), map[string]string{"refenc-far-xz": "xz", "refenc-far-alone": "lzma", "refenc-far-l2": "lzma2"}[s.Kind])
		return &Built{Stream: f.Stream, Content: f.Content, Format: f.Format, Dict: f.Dict}
	case "lib":
		x := sim.NewCtx(false)
		res := runWriter(s.W, x)
		b := &Built{Stream: res.Sink.Image, Content: res.Log, Format: s.W.Format, Dict: int64(s.W.dictCap())}
		if res.AnyErr || res.AnyPanic || res.CloseIdx < 0 || !refAccepts(b) {
			// the writer failed, or the reference decoder does not get the
			// content back from what it wrote: not a usable input for a reader
			// check; the writer checks (C01/C02/C06/C08) judge that
			b.Err = errWriterFailed
		}
		return b
	case "liblzma-xz":
		data := s.Payload.Bytes()
		enc, err := liblzma.EncodeXZ(data, *s.Enc)
		return &Built{Stream: enc, Content: data, Format: "xz", Err: err}
	case "liblzma-alone":
		data := s.Payload.Bytes()
		enc, err := liblzma.EncodeAlone(data, *s.Enc)
		return &Built{Stream: enc, Content: data, Format: "lzma", Err: err}
	case "corpus":
		e, err := corpusEntry(s.File)
		if err != nil {
			return &Built{Err: err}
		}
		return &Built{Stream: e.stream, Content: e.content, Format: e.Format}
	case "literal":
		st, _ := hex.DecodeString(s.Hex)
		ct, _ := hex.DecodeString(s.ContentHex)
		return &Built{Stream: st, Content: ct, Format: s.Format, Dict: s.Dict}
	case "multi":
		b := &Built{Format: "xz"}
		b.Stream = append(b.Stream, make([]byte, s.LeadPad)...)
		for i := range s.Parts {
			p := s.Parts[i].Build()
			if p.Err != nil {
				b.Err = p.Err
				return b
			}
			b.Stream = append(b.Stream, p.Stream...)
			b.Content = append(b.Content, p.Content...)
			b.PartEnds = append(b.PartEnds, len(b.Stream))
			if i < len(s.Pads) {
				b.Stream = append(b.Stream, make([]byte, s.Pads[i])...)
			}
		}
		if s.Trail != "" {
			t, _ := hex.DecodeString(s.Trail)
			b.Stream = append(b.Stream, t...)
		}
		return b
	}
	sim.Infra("unknown stream recipe kind %q", s.Kind)
	return nil
}

type errString string

func (e errString) Error() string { return string(e) }

// refAccepts reports whether the reference decoder of the stream's format
// decodes it to the stated content.
func refAccepts(b *Built) bool {
	switch b.Format {
	case "xz":
		f, err := refxz.Parse(b.Stream, false)
		return err == nil && bytes.Equal(f.Content, b.Content)
	case "lzma":
		r, err := reflzma.DecodeAlone(b.Stream, false)
		return err == nil && bytes.Equal(r.Out, b.Content)
	case "lzma2":
		r, err := reflzma.DecodeLZMA2(b.Stream, b.Dict, true, false)
		return err == nil && bytes.Equal(r.Out, b.Content)
	}
	return true
}

const errWriterFailed = errString("library writer failed while producing a stream for a reader check")

// Literal converts a built stream into a literal recipe.
func (b *Built) Literal() StreamRecipe {
	return StreamRecipe{Kind: "literal", Hex: hex.EncodeToString(b.Stream), ContentHex: hex.EncodeToString(b.Content), Format: b.Format, Dict: b.Dict}
}

// ---- corpus ----

type corpusInfo struct {
	File    string `json:"file"`
	Format  string `json:"format"`
	SHA256  string `json:"content_sha256"`
	Content string `json:"content_file"`
	Note    string `json:"note"`
	stream  []byte
	content []byte
}

var (
	corpusOnce sync.Once
	corpusMap  map[string]*corpusInfo
	corpusList []string
)

func loadCorpus() {
	corpusMap = map[string]*corpusInfo{}
	dir := filepath.Join(sim.VerifDir(), "corpus")
	b, err := os.ReadFile(filepath.Join(dir, "index.json"))
	if err != nil {
		return
	}
	var list []*corpusInfo
	if json.Unmarshal(b, &list) != nil {
		return
	}
	for _, e := range list {
		st, err1 := os.ReadFile(filepath.Join(dir, e.File))
		ct, err2 := os.ReadFile(filepath.Join(dir, e.Content))
		if err1 != nil || err2 != nil {
			continue
		}
		e.stream, e.content = st, ct
		corpusMap[e.File] = e
		corpusList = append(corpusList, e.File)
	}
	sort.Strings(corpusList)
}

func corpusEntry(name string) (*corpusInfo, error) {
	corpusOnce.Do(loadCorpus)
	e, ok := corpusMap[name]
	if !ok {
		return nil, errString("corpus file missing: " + name)
	}
	return e, nil
}

// CorpusFiles lists corpus files of a format (exported for the gxz checks).
func CorpusFiles(format string) []string { return corpusFiles(format) }

// corpusFiles lists corpus files of a format.
func corpusFiles(format string) []string {
	corpusOnce.Do(loadCorpus)
	var out []string
	for _, n := range corpusList {
		if corpusMap[n].Format == format {
			out = append(out, n)
		}
	}
	return out
}

// genLiblzmaOpts draws encoder options for liblzma.
func genLiblzmaOpts(r *sim.Rng, alone bool) *liblzma.EncOptions {
	o := &liblzma.EncOptions{Preset: uint32(r.Intn(10)), Extreme: r.Chance(1, 5), LC: -1}
	if o.Preset > 6 && !r.Chance(1, 10) {
		o.Preset = uint32(r.Intn(7)) // presets 7-9 allocate tens of MiB per encoder
	}
	if r.Bool() {
		p := refenc.RandProps(r, true)
		o.LC, o.LP, o.PB = p.LC, p.LP, p.PB
	}
	if r.Chance(2, 3) {
		o.Dict = uint32(sim.Pick(r, []int{4096, 4097, 6000, 8192, 1 << 16, 1<<16 + 1, 1 << 20}))
	}
	if r.Chance(1, 3) {
		o.MF = sim.Pick(r, []int{0x03, 0x04, 0x12, 0x13, 0x14})
		o.Mode = 2
		if o.MF < 0x10 && r.Bool() {
			o.Mode = 1
		}
	}
	if r.Chance(1, 4) {
		o.Nice = sim.Pick(r, []int{2, 3, 8, 32, 273})
		if o.MF == 0x13 || o.MF == 0x03 {
			if o.Nice < 3 {
				o.Nice = 3
			}
		}
		if o.MF == 0x14 || o.MF == 0x04 || o.MF == 0 {
			if o.Nice < 4 {
				o.Nice = 4
			}
		}
	}
	if !alone {
		o.Check = sim.Pick(r, []int{0, 1, 4, 10})
		if r.Chance(1, 3) {
			o.BlockSize = uint64(sim.Pick(r, []int{4096, 5000, 65536, 100000}))
		}
	}
	return o
}

// xzSpans parses a valid xz image with the reference parser (for fault sites).
func xzSpans(img []byte) *refxz.File {
	f, err := refxz.Parse(img, false)
	if err != nil {
		return nil
	}
	return f
}

var _ = reflzma.KindOf
