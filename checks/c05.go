package checks

import (
	"io"
	"sort"
	"time"

	"verif/ref/reflzma"
	"verif/sim"
)

// siteFunc names the structure containing byte offset off of a valid stream.
type siteFunc func(off int) string

// streamSites returns a site function and the list of structure boundaries of
// a valid stream, computed with the reference parsers only.
func streamSites(b *Built) (siteFunc, []int) {
	var bounds []int
	switch b.Format {
	case "xz":
		f := xzSpans(b.Stream)
		if f == nil {
			sim.Infra("refxz rejects a stream that was generated as valid")
		}
		for _, s := range f.Spans {
			bounds = append(bounds, s.Start, s.End)
		}
		// chunk boundaries inside block data
		type chunkAt struct{ start, hdrEnd, first5, end int }
		var chunks []chunkAt
		for _, st := range f.Streams {
			for _, bl := range st.Blocks {
				for _, ch := range bl.Chunks {
					s := bl.DataOffset + ch.Offset
					c := chunkAt{start: s, hdrEnd: s + ch.HeaderLen, end: s + ch.HeaderLen + ch.Compressed}
					c.first5 = c.hdrEnd
					if ch.Kind != "end" && ch.Kind[0] == 'L' {
						c.first5 = c.hdrEnd + 5
					}
					if ch.Kind == "end" {
						c.end = s + 1
					}
					chunks = append(chunks, c)
					bounds = append(bounds, c.start, c.hdrEnd, c.first5, c.end)
				}
			}
		}
		return func(off int) string {
			k := f.SpanAt(off)
			if k == "block-data" {
				for _, c := range chunks {
					if off >= c.start && off < c.end {
						switch {
						case off < c.hdrEnd:
							return "block-data:chunk-header"
						case off < c.first5:
							return "block-data:chunk-rc-init"
						}
						return "block-data:chunk-payload"
					}
				}
			}
			return k
		}, bounds
	case "lzma2":
		res, err := reflzma.DecodeLZMA2(b.Stream, b.Dict, true, false)
		if err != nil {
			sim.Infra("reflzma rejects an LZMA2 stream that was generated as valid: %v", err)
		}
		for _, ch := range res.Chunks {
			bounds = append(bounds, ch.Offset, ch.Offset+ch.HeaderLen, ch.Offset+ch.HeaderLen+5, ch.Offset+ch.HeaderLen+ch.Compressed)
		}
		chunks := res.Chunks
		return func(off int) string {
			for _, ch := range chunks {
				end := ch.Offset + ch.HeaderLen + ch.Compressed
				if off >= ch.Offset && off < end {
					switch {
					case ch.Kind == "end":
						return "end-chunk"
					case off < ch.Offset+ch.HeaderLen:
						return "chunk-header"
					case ch.Kind[0] == 'L' && off < ch.Offset+ch.HeaderLen+5:
						return "chunk-rc-init"
					}
					return "chunk-payload"
				}
			}
			return "outside"
		}, bounds
	case "lzma":
		bounds = []int{13, 18}
		return func(off int) string {
			switch {
			case off < 13:
				return "header"
			case off < 18:
				return "rc-init"
			}
			return "body"
		}, bounds
	}
	sim.Infra("unknown format %q", b.Format)
	return nil, nil
}

// positions returns the fault positions to enumerate for a stream of n bytes:
// all of them up to 16 KiB, otherwise a stride of 7 plus every position within
// 64 bytes of a structure boundary.
func positions(n int, bounds []int, upto int) []int {
	return positionsCost(n, bounds, upto, 1)
}

// decodeCost is a deterministic proxy for the cost of one full decode of a
// stream (bytes plus per-block reader set-up), used to keep the enumeration of
// one case within a few seconds without reading a clock.
func decodeCost(b *Built, reads []int) int {
	cost := len(b.Stream) + len(b.Content)/4 + 2000
	// a schedule of tiny reads makes one decode cost a call per few bytes
	if len(reads) > 0 && len(b.Content) > 0 {
		sum := 0
		for _, l := range reads {
			switch {
			case l < 0:
				sum += len(b.Content)
			case l > len(b.Content):
				sum += len(b.Content)
			default:
				sum += l
			}
		}
		if sum < 1 {
			sum = 1
		}
		calls := len(b.Content) * len(reads) / sum
		cost += calls * 40
	}
	if b.Format == "lzma2" {
		cost += int(b.Dict / 2) // the reader's window is allocated (and cleared) per decode
	}
	if b.Format == "xz" {
		if f := xzSpans(b.Stream); f != nil {
			for _, st := range f.Streams {
				for _, bl := range st.Blocks {
					cost += 3000 + int(bl.DictSize/2)
				}
			}
		}
	} else {
		cost += int(b.Dict / 2)
	}
	return cost
}

// positionsCost is positions with a cost bound: when n decodes of the given
// cost exceed the per-case budget the stride grows (boundaries stay covered).
func positionsCost(n int, bounds []int, upto int, cost int) []int {
	const budget = 1.5e8
	stride, halo := 1, 64
	if n > 16384 {
		stride = 7
	}
	for float64(upto/stride+len(bounds)*(2*halo+1))*float64(cost)/2 > budget && (stride < 1<<22 || halo > 2) {
		if stride < 1<<22 {
			stride = stride*2 + 1
		}
		if halo > 2 {
			halo /= 2
		}
	}
	// too many structures for the budget even with the smallest halo: keep
	// the boundaries of the first and last structures and every k-th between
	if float64(len(bounds)*(2*halo+1))*float64(cost)/2 > budget {
		keep := int(budget * 2 / float64(cost) / float64(2*halo+1))
		if keep < 12 {
			keep = 12
		}
		if keep < len(bounds) {
			var nb []int
			step := float64(len(bounds)) / float64(keep)
			for i := 0; i < keep; i++ {
				nb = append(nb, bounds[int(float64(i)*step)])
			}
			nb = append(nb, bounds[len(bounds)-12:]...)
			bounds = nb
		}
	}
	if stride == 1 {
		out := make([]int, 0, n)
		for i := 0; i < upto; i++ {
			out = append(out, i)
		}
		return out
	}
	set := map[int]struct{}{}
	for i := 0; i < upto; i += stride {
		set[i] = struct{}{}
	}
	for _, b := range bounds {
		for i := b - halo; i <= b+halo; i++ {
			if i >= 0 && i < upto {
				set[i] = struct{}{}
			}
		}
	}
	out := make([]int, 0, len(set))
	for i := range set {
		out = append(out, i)
	}
	sort.Ints(out)
	return out
}

func genCutCase(r *sim.Rng, tier string, idx int) *RCase {
	c := &RCase{Src: genSrcPlan(r), Reads: genReads(r), RDict: 4096}
	if r.Chance(2, 3) {
		c.Src.Frag = "whole"
		c.Reads = []int{32768}
	}
	small := func(w *WCase, max int) {
		if w.XZ != nil && w.XZ.BlockSize > 0 && int64(max) > 24*w.XZ.BlockSize {
			max = int(24 * w.XZ.BlockSize) // at most 24 blocks: more only repeat the same structures
		}
		if w.Payload.Len() > max {
			w.Payload = sim.GenPayload(r, max)
			w.Ops = []Op{{K: "w", N: w.Payload.Len()}, {K: "c"}}
		}
	}
	lim := 1500
	if tier == "thorough" && r.Chance(1, 40) {
		lim = 200000
	}
	switch r.Weighted([]int{5, 2, 3, 3}) {
	case 0: // single-stream xz
		if r.Bool() {
			w := genXZWCase(r, "src", 0, false)
			small(w, lim)
			c.Stream = StreamRecipe{Kind: "lib", W: w}
		} else {
			c.Stream = StreamRecipe{Kind: "refenc-xz", Seed: r.Uint64()}
		}
	case 1: // multi-stream xz
		c.Stream = genMulti(r, tier, true)
	case 2: // raw LZMA2
		if r.Bool() {
			w := genL2WCase(r, "src", false)
			small(w, lim)
			c.Stream = StreamRecipe{Kind: "lib", W: w}
			c.RDict = w.L2.EffDictCap()
		} else {
			c.Stream = StreamRecipe{Kind: "refenc-l2", Seed: r.Uint64()}
			c.RDict = 1 << 20
		}
	default: // classic LZMA, three termination modes
		if r.Bool() {
			w := genLZWCase(r, "src", false, false)
			small(&w.W, lim)
			if w.W.LZ.HasSize() {
				w.W.LZ.Size = int64(w.W.Payload.Len())
				w.W.LZ.SizeInHeader = true
			}
			c.Stream = StreamRecipe{Kind: "lib", W: &w.W}
		} else {
			c.Stream = StreamRecipe{Kind: "refenc-alone", Seed: r.Uint64()}
		}
	}
	return c
}

// validPrefixLens returns the prefix lengths of a multi-stream file that are
// themselves complete files (stream ends and 4-byte padding boundaries).
func validPrefixLens(s *StreamRecipe, b *Built) map[int]bool {
	ok := map[int]bool{}
	if s.Kind != "multi" {
		return ok
	}
	for i, e := range b.PartEnds {
		pad := 0
		if i < len(s.Pads) {
			pad = s.Pads[i]
		}
		for j := 0; j <= pad; j += 4 {
			ok[e+j] = true
		}
	}
	return ok
}

func runCutCase(c *RCase, x *sim.Ctx) *sim.Violation {
	b := c.Stream.Build()
	if b.Err != nil {
		if b.Err == errWriterFailed {
			x.Count("writer-contract-failures(left to C01/C06/C08)", 1)
			return nil
		}
		sim.Infra("cannot build stream: %v", b.Err)
	}
	x.Shape(b.Format + ":" + c.Stream.Kind)
	site, bounds := streamSites(b)
	skip := validPrefixLens(&c.Stream, b)
	cuts := positionsCost(len(b.Stream), bounds, len(b.Stream), decodeCost(b, c.Reads))
	if len(cuts) == len(b.Stream) {
		x.Count("streams-with-every-cut-enumerated", 1)
	} else {
		x.Count("streams-with-strided-cuts", 1)
	}
	if c.HasOnly {
		cuts = []int{c.Only}
	}
	for _, k := range cuts {
		if k >= len(b.Stream) || skip[k] {
			continue
		}
		x.Eval(1)
		x.Nontrivial(1)
		x.Fault("truncate")
		st := site(k)
		x.Count("cut-in."+b.Format+"."+st, 1)
		sub := sim.NewCtx(false)
		rc := *c
		rc.PostErr = c04PostErr // a caller that keeps reading after the error
		res := runReader(b.Format, b.Stream[:k], len(b.Content), &rc, len(b.Content)+4096, sub)
		x.Step("api", sub.Counters["steps.api"])
		x.Step("source", sub.Counters["steps.source"])
		x.Ev("cut %d site=%s -> open=%v final=%v out=%d", k, st, res.OpenErr, res.Final, len(res.Out))
		v := judgeDamaged(res, b.Content, b.Format, st, "cut at "+itoa(k)+" of "+itoa(len(b.Stream)), true)
		if v != nil {
			n := *c
			n.HasOnly, n.Only = true, k
			v.Narrow = &n
			return v
		}
	}
	return nil
}

// judgeDamaged applies the oracle for truncated / damaged streams: never a
// panic, never n out of range, never a clean EOF (mustFail), delivered bytes a
// prefix of the original content.
func judgeDamaged(res *RResult, content []byte, format, site, what string, mustFail bool) *sim.Violation {
	if res.OpenPanic != nil {
		return sim.Viol("panic", "open:"+panicSite(res.OpenPanic), "%s: open panicked: %s [%s]", what, res.OpenPanic.Value, res.OpenPanic.Stack)
	}
	if res.Panic != nil {
		return sim.Viol("panic", "read:"+panicSite(res.Panic), "%s: Read panicked: %s [%s]", what, res.Panic.Value, res.Panic.Stack)
	}
	if res.BadN != nil {
		return sim.Viol("bad-n", format, "%s: Read(len %d) returned n=%d", what, res.BadN.Len, res.BadN.N)
	}
	if res.OpenErr != nil {
		if mustFail && res.OpenErr == io.EOF {
			return sim.Viol("truncation-as-eof", format+":open:"+site, "%s: the constructor returned the bare end-of-stream value io.EOF", what)
		}
		return nil
	}
	if mustFail && !isPrefix(res.Out, content) {
		return sim.Viol("wrong-bytes-before-error", format+":"+site, "%s: delivered bytes are not a prefix of the content (difference at %d)", what, firstDiff(res.Out, content))
	}
	if res.Final == io.EOF && mustFail {
		return sim.Viol("truncation-as-eof", format+":"+site, "%s: clean end of stream after %d of %d bytes", what, len(res.Out), len(content))
	}
	if res.Final == nil && res.NoProg {
		return sim.Viol("no-progress", format+":"+site, "%s: reader neither fails nor ends", what)
	}
	if mustFail && res.PostErrEOF {
		// the error was reported, the caller read on (as bufio.Reader.WriteTo does
		// after an error that came with data) and was then told that the stream
		// had ended: the incomplete stream passes for a complete one after all
		return sim.Viol("truncation-as-eof", format+":"+site+":after-error", "%s: Read reported %q, later reads went on to a clean end of stream (%d+%d of %d bytes)", what, res.Final.Error(), len(res.Out), len(res.PostErrOut), len(content))
	}
	return nil
}

func init() {
	sim.Register(sim.Spec[RCase]{
		Property:  "C05",
		Engine:    "dfault",
		Level:     "fault_enumeration",
		Technique: "deterministic simulation with the single stored-data fault 'writer died / tail lost': every cut position of every sampled stream (.xz single- and multi-stream, raw LZMA2, .lzma in three termination modes; library-, refenc-written) is decoded behind the simulated source",
		Rule: "case = (valid stream, fragmentation plan, Read schedule); fault space per case = every proper prefix length 0..len-1 (beyond 16 KiB: stride 7 plus every position within 64 bytes of a structure boundary reported by the reference parser); for multi-stream files cuts on a stream end or 4-byte padding boundary are excluded; " +
			"non-trivial = every cut; distinct = (scenario digest, cut) pairs",
		Gen:    genCutCase,
		Run:    runCutCase,
		Shrink: func(c *RCase) []*RCase { return shrinkFaultRCase(c) },
		Runs: func(tier string) int {
			if tier == "thorough" {
				return 60000
			}
			return 2500
		},
		Budget: func(tier string) time.Duration {
			if tier == "thorough" {
				return 20 * time.Minute
			}
			return 45 * time.Second
		},
		RunDeadline: 120 * time.Second,
		Exhaustive:  []string{"every cut position of each sampled stream up to 16 KiB"},
		Assumptions: []string{
			"an error returned by the constructor counts as failure unless it is the bare io.EOF value (the end-of-stream value must not be what a truncated stream yields)",
			"process-crash semantics: the prefix that reached storage is intact",
		},
		Components: components,
	})
}

// shrinkFaultRCase shrinks a reader case that carries a single fault position:
// the stream is kept (positions would shift), schedule and plan are simplified.
func shrinkFaultRCase(c *RCase) []*RCase {
	var out []*RCase
	for _, d := range shrinkRCase(c) {
		if d.Stream.Kind != c.Stream.Kind && !(d.Stream.Kind == "literal") {
			continue
		}
		out = append(out, d)
	}
	return out
}
