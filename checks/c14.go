package checks

import (
	"bytes"
	"crypto/sha256"
	"encoding/hex"
	"encoding/json"
	"fmt"
	"os"
	"os/exec"
	"path/filepath"
	"runtime"
	"strings"
	"sync"
	"sync/atomic"
	"time"

	"github.com/ulikunitz/xz"
	"github.com/ulikunitz/xz/lzma"

	"verif/sim"
	"verif/simio"
)

// ConcTask is one caller task owning one writer or one reader.
type ConcTask struct {
	W *WCase `json:"w,omitempty"`
	R *RCase `json:"r,omitempty"`
	// Bad: a writer configuration the library must refuse. The caller tries to
	// create the writer and, as callers do, formats the rejected configuration
	// for its log afterwards. Observable: whether the constructor failed, and
	// what reached the sink.
	Bad *BadCfg `json:"bad,omitempty"`
}

// BadCfg is an invalid writer configuration.
type BadCfg struct {
	Format  string `json:"format"` // xz | lzma | lzma2
	Matcher int    `json:"matcher,omitempty"`
	LC      int    `json:"lc,omitempty"`
	DictCap int    `json:"dict_cap,omitempty"`
	BufSize int    `json:"buf_size,omitempty"`
}

func runBad(b *BadCfg, yield func()) (string, string) {
	if yield != nil {
		yield()
	}
	sink := simio.NewSink(simio.SinkPlan{})
	var err error
	var logged string
	p := guard(func() {
		props := &lzma.Properties{LC: b.LC, LP: 0, PB: 2}
		switch b.Format {
		case "xz":
			cfg := xz.WriterConfig{Properties: props, DictCap: b.DictCap, BufSize: b.BufSize, Matcher: lzma.MatchAlgorithm(b.Matcher)}
			_, err = cfg.NewWriter(sink.Writer())
			logged = fmt.Sprintf("%+v", cfg)
		case "lzma":
			cfg := lzma.WriterConfig{Properties: props, DictCap: b.DictCap, BufSize: b.BufSize, Matcher: lzma.MatchAlgorithm(b.Matcher)}
			_, err = cfg.NewWriter(sink.Writer())
			logged = fmt.Sprintf("%+v", cfg)
		default:
			cfg := lzma.Writer2Config{Properties: props, DictCap: b.DictCap, BufSize: b.BufSize, Matcher: lzma.MatchAlgorithm(b.Matcher)}
			_, err = cfg.NewWriter2(sink.Writer())
			logged = fmt.Sprintf("%+v", cfg)
		}
	})
	_ = logged
	h := sha256.New()
	fmt.Fprintf(h, "bad %v %v\n", err != nil, p != nil)
	h.Write(sink.Image)
	return fmt.Sprintf("%x", h.Sum(nil)[:12]), fmt.Sprintf("invalid %s configuration: refused=%v panic=%v sink=%d bytes", b.Format, err != nil, p != nil, len(sink.Image))
}

// ConcCase is a concurrency scenario over N caller tasks.
//
//	lockstep: tasks park before every API call and inside every sink/source
//	          call; a seeded scheduler releases exactly one at a time.
//	free:     tasks start together with no harness synchronisation (run under
//	          the race detector).
type ConcCase struct {
	Mode      string     `json:"mode"`
	Tasks     []ConcTask `json:"tasks"`
	SchedSeed uint64     `json:"sched_seed,omitempty"`
	Procs     int        `json:"procs,omitempty"`
	Reps      int        `json:"reps,omitempty"`
	// SharedProps (lock-step only): the writer tasks re-tune one common
	// lzma.Properties value, each right before it creates its writer.
	SharedProps bool `json:"shared_props,omitempty"`
	// Siblings: the case holds tasks that differ in one nudged configuration
	// value; every task is then also compared with a run in a fresh process.
	Siblings bool `json:"siblings,omitempty"`
	// Cold (unsynchronised mode): the case is the very first use of the library
	// in a fresh process - lazily initialised package state, "first time only"
	// flags - and is run in a process of its own.
	Cold bool `json:"cold,omitempty"`
}

func genConcTask(r *sim.Rng) ConcTask {
	small := func(w *WCase, lim int) {
		if w.XZ != nil && w.XZ.BlockSize > 0 && int64(lim) > 8*w.XZ.BlockSize {
			lim = int(8 * w.XZ.BlockSize)
		}
		if w.Payload.Len() > lim {
			w.Payload = sim.GenPayload(r, lim)
		}
		// many small writes: scheduling points every few bytes of codec progress
		n := w.Payload.Len()
		w.Ops = nil
		for left := n; left > 0; {
			k := r.Range(1, 64)
			if k > left {
				k = left
			}
			w.Ops = append(w.Ops, Op{K: "w", N: k})
			left -= k
			if w.Format == "lzma2" && r.Chance(1, 10) {
				w.Ops = append(w.Ops, Op{K: "f"})
			}
			if len(w.Ops) > 60 {
				w.Ops = append(w.Ops, Op{K: "w", N: left})
				break
			}
		}
		w.Ops = append(w.Ops, Op{K: "c"})
		if w.LZ != nil && w.LZ.HasSize() {
			w.LZ.Size, w.LZ.SizeInHeader = int64(n), true
		}
	}
	if r.Chance(1, 12) {
		b := &BadCfg{Format: sim.Pick(r, []string{"xz", "lzma", "lzma2"}), LC: 3, DictCap: 1 << 16, BufSize: 4096}
		switch r.Intn(4) {
		case 0:
			b.Matcher = sim.Pick(r, []int{2, 3, 7, 200})
		case 1:
			b.LC = sim.Pick(r, []int{9, 12, -1})
		case 2:
			b.DictCap = sim.Pick(r, []int{1, 100, 4095, -5})
		default:
			b.BufSize = sim.Pick(r, []int{1, 100, 272, -1})
		}
		return ConcTask{Bad: b}
	}
	lim := sim.Pick(r, []int{300, 1500, 1500, 20000})
	switch r.Intn(6) {
	case 0:
		w := genXZWCase(r, "src", 0, false)
		small(w, lim)
		return ConcTask{W: w}
	case 1:
		w := &genLZWCase(r, "src", false, false).W
		small(w, lim)
		return ConcTask{W: w}
	case 2:
		w := genL2WCase(r, "src", false)
		small(w, lim)
		return ConcTask{W: w}
	}
	if r.Chance(1, 8) {
		// a reader task that must fail: a classic .lzma stream whose header
		// states a wrong size (the error a task reports - its text included -
		// is part of "the result it produces when run alone")
		n := r.Range(20, 400)
		w := &WCase{Format: "lzma", LZ: &LZCfg{LC: 3, PB: 2, DictCap: 4096, BufSize: 4096, SizeInHeader: true, Size: int64(n), EOSMarker: r.Bool()},
			Payload: sim.Payload{Kind: "text", N: n, Seed: r.Uint64()}, Ops: []Op{{K: "w", N: n}, {K: "c"}}}
		b := (&StreamRecipe{Kind: "lib", W: w}).Build()
		if b.Err == nil && len(b.Stream) > 13 {
			img := append([]byte(nil), b.Stream...)
			lie := uint64(n + sim.Pick(r, []int{-1, 1, 7, 100, 5000})*r.Range(1, 3))
			if int64(lie) < 0 {
				lie = 0
			}
			for i := 0; i < 8; i++ {
				img[5+i] = byte(lie >> (8 * uint(i)))
			}
			rc := &RCase{Src: genSrcPlan(r), RDict: 4096, Reads: []int{sim.Pick(r, []int{1, 64, 500})}}
			rc.Stream = StreamRecipe{Kind: "literal", Hex: hex.EncodeToString(img), ContentHex: hex.EncodeToString(b.Content), Format: "lzma"}
			return ConcTask{R: rc}
		}
	}
	// reader task
	c := &RCase{Src: genSrcPlan(r), RDict: 4096}
	c.Reads = []int{sim.Pick(r, []int{1, 3, 7, 64, 500})}
	if r.Bool() {
		c.PostEOF = []int{1, 64, 7} // a caller that reads on after the end of the stream
	}
	if c.Src.Frag == "whole" {
		c.Src.Frag = "seeded"
	}
	switch r.Intn(3) {
	case 0:
		c.Stream = StreamRecipe{Kind: "refenc-xz", Seed: r.Uint64()}
	case 1:
		c.Stream = StreamRecipe{Kind: "refenc-alone", Seed: r.Uint64()}
	default:
		c.Stream = StreamRecipe{Kind: "refenc-l2", Seed: r.Uint64()}
		c.RDict = 1 << 20
	}
	return ConcTask{R: c}
}

func genConcCase(r *sim.Rng, tier string, idx int) *ConcCase {
	c := &ConcCase{Mode: "lockstep", SchedSeed: r.Uint64()}
	// SharedProps: the writer tasks re-tune one Properties value of the caller,
	// each right before it creates its writer (every writer gets a configuration
	// of its own by value; what it does with the pointer inside is its business).
	// First judged outside the property, see DESIGN.md §6 #25 for the reversal.
	c.SharedProps = r.Chance(1, 8)
	if os.Getenv("VERIF_C14_MODE") == "race" {
		c.Mode = "free"
		c.Procs = sim.Pick(r, []int{1, 4, 16})
		c.Reps = sim.Pick(r, []int{1, 1, 4, 12}) // the same set started together several times
	}
	n := r.Range(2, 8)
	if c.Mode == "free" && idx < 64 {
		// the first cases of each race child are cold starts of the package:
		// several xz writers and readers with the default and other checks at once
		n = r.Range(4, 8)
		for i := 0; i < n; i++ {
			if r.Chance(1, 3) {
				c.Tasks = append(c.Tasks, ConcTask{R: &RCase{Stream: StreamRecipe{Kind: "refenc-xz", Seed: r.Uint64()}, Src: genSrcPlan(r), Reads: []int{64}, RDict: 4096}})
				continue
			}
			w := genXZWCase(r, "src", 0, false)
			w.XZ.BlockSize = sim.Pick(r, []int64{0, 0, 100, 512})
			if i%2 == 0 {
				w.XZ.CheckSum, w.XZ.NoCheckSum = 0, false // default CRC64
			}
			w.Payload = sim.GenPayload(r, 1500)
			w.Ops = []Op{{K: "w", N: w.Payload.Len()}, {K: "c"}}
			c.Tasks = append(c.Tasks, ConcTask{W: w})
		}
		sameStreamReaders(r, c)
		return c
	}
	for i := 0; i < n; i++ {
		if i > 0 && r.Chance(1, 4) {
			// a deliberately identical task: must produce identical bytes
			b, _ := json.Marshal(c.Tasks[r.Intn(i)])
			var t ConcTask
			json.Unmarshal(b, &t)
			c.Tasks = append(c.Tasks, t)
			continue
		}
		if i > 0 && c.Mode == "lockstep" && r.Chance(1, 6) {
			// a sibling: an earlier writer task with one configuration value nudged
			// (dictionary capacities that share a size code, look-ahead sizes, lc):
			// anything cached under a lossy key of the configuration shows here
			if t, ok := siblingOf(r, &c.Tasks[r.Intn(i)]); ok {
				c.Tasks = append(c.Tasks, t)
				c.Siblings = true
				continue
			}
		}
		c.Tasks = append(c.Tasks, genConcTask(r))
	}
	sameStreamReaders(r, c)
	return c
}

// sameStreamReaders makes, in a third of the unsynchronised cases, all readers
// of foreign xz streams read the same stream: they parse the same headers at
// the same time (behind the start barrier).
func sameStreamReaders(r *sim.Rng, c *ConcCase) {
	if c.Mode != "free" || !r.Chance(1, 3) {
		return
	}
	first := -1
	for i := range c.Tasks {
		if c.Tasks[i].R == nil || c.Tasks[i].R.Stream.Kind != "refenc-xz" {
			continue
		}
		if first < 0 {
			first = i
			if r.Bool() {
				unusualHeaders(r, &c.Tasks[i])
			}
		} else {
			b, _ := json.Marshal(c.Tasks[first])
			var t ConcTask
			json.Unmarshal(b, &t)
			c.Tasks[i] = t
		}
	}
	if first >= 0 && r.Bool() {
		// nothing but copies of that one short task, started together many times:
		// two of them are inside the same few microseconds of header parsing
		// only now and then
		b, _ := json.Marshal(c.Tasks[first])
		c.Tasks = nil
		for k, n := 0, r.Range(4, 8); k < n; k++ {
			var t ConcTask
			json.Unmarshal(b, &t)
			c.Tasks = append(c.Tasks, t)
		}
		c.Reps = 60
		if c.Procs == 1 {
			c.Procs = 4
		}
	}
}

// siblingOf copies a writer task and nudges one configuration value; the
// payload is made long enough for the dictionary to matter.
func siblingOf(r *sim.Rng, t *ConcTask) (ConcTask, bool) {
	if t.W == nil {
		return ConcTask{}, false
	}
	b, _ := json.Marshal(t)
	var s ConcTask
	json.Unmarshal(b, &s)
	f := s.W.dictCapField()
	dict, buf, lc := f[0], f[1], f[2]
	if dict == nil {
		return ConcTask{}, false
	}
	switch r.Intn(4) {
	case 0, 1:
		// another capacity under the same dictionary-size code (codes are 2^n and 3*2^(n-1))
		base := *dict
		if base == 0 {
			return ConcTask{}, false
		}
		code := 4096
		for code < base {
			if code&(code-1) == 0 {
				code += code / 2
			} else {
				code = code / 3 * 4
			}
		}
		lo := code*2/3 + 1
		if code&(code-1) == 0 {
			lo = code*3/4 + 1
		}
		if lo < 4096 {
			lo = 4096
		}
		*dict = r.Range(lo, code)
		// both tasks get more data than the smaller dictionary holds
		pl := sim.GenPayload(r, 3*code)
		if pl.Len() <= code {
			pl = sim.Payload{Kind: "text", N: r.Range(code+1, 3*code), Seed: r.Uint64()}
		}
		for _, w := range []*WCase{t.W, s.W} {
			w.Payload = pl
			w.Ops = []Op{{K: "w", N: pl.Len()}, {K: "c"}}
			// keep the enlarged payload cheap: no tiny blocks, no degenerate tree
			switch {
			case w.XZ != nil:
				w.XZ.Matcher = 0
				if w.XZ.BlockSize > 0 && w.XZ.BlockSize < 4096 {
					w.XZ.BlockSize = 0
				}
			case w.LZ != nil:
				w.LZ.Matcher = 0
			case w.L2 != nil:
				w.L2.Matcher = 0
			}
			if w.LZ != nil && w.LZ.HasSize() {
				w.LZ.Size, w.LZ.SizeInHeader = int64(pl.Len()), true
			}
		}
	case 2:
		if *buf == 0 {
			*buf = 4096
		}
		*buf += r.Range(1, 3)
	default:
		*lc = (*lc + 1) % 4
	}
	return s, true
}

// runTask executes one task and returns a digest of everything observable.
func runTask(t *ConcTask, yield func()) (digest string, detail string) {
	return runTaskShared(t, yield, nil)
}

func runTaskShared(t *ConcTask, yield func(), shared any) (digest string, detail string) {
	if t.Bad != nil {
		return runBad(t.Bad, yield)
	}
	x := sim.NewCtx(false)
	x.Yield = yield
	x.Shared = shared
	h := sha256.New()
	if t.W != nil {
		res := runWriter(t.W, x)
		fmt.Fprintf(h, "new %v %v\n", res.NewErr, res.NewPanic != nil)
		for _, c := range res.Calls {
			fmt.Fprintf(h, "%s %d %v %v %d\n", c.Op.K, c.N, c.Err, c.Panic != nil, c.ImgAfter)
		}
		h.Write(res.Sink.Image)
		return fmt.Sprintf("%x", h.Sum(nil)[:12]), fmt.Sprintf("writer %s image=%d bytes anyerr=%v panic=%v", t.W.Format, len(res.Sink.Image), res.AnyErr, res.AnyPanic)
	}
	b := t.R.Stream.Build()
	if b.Err == errWriterFailed {
		return "unusable-input", "reader task: the library writer got its input stream wrong (left to the writer checks)"
	}
	if b.Err != nil {
		sim.Infra("cannot build stream: %v", b.Err)
	}
	res := runReader(b.Format, b.Stream, len(b.Content), t.R, 0, x)
	fmt.Fprintf(h, "open %v %v\n", res.OpenErr, res.OpenPanic != nil)
	for _, c := range res.Calls {
		fmt.Fprintf(h, "%d %d %v\n", c.Len, c.N, c.Err)
	}
	h.Write(res.Out)
	for _, c := range res.Post {
		fmt.Fprintf(h, "post-eof %d %d %v\n", c.Len, c.N, c.Err)
	}
	ok := bytes.Equal(res.Out, b.Content)
	return fmt.Sprintf("%x", h.Sum(nil)[:12]), fmt.Sprintf("reader %s out=%d bytes final=%v content-ok=%v", b.Format, len(res.Out), res.Final, ok)
}

// soloFresh runs one task alone in a fresh process of this binary and returns
// its digest: the reference for "the output is a function of configuration
// and input" that no earlier instance in this process can have influenced.
func soloFresh(t *ConcTask) (string, string) {
	self, err := os.Executable()
	if err != nil {
		sim.Infra("cannot locate own binary: %v", err)
	}
	b, _ := json.Marshal(t)
	cmd := exec.Command(self, "solotask")
	cmd.Stdin = bytes.NewReader(b)
	cmd.Env = append(os.Environ(), "VERIF_SHARD=", "VERIF_SHARD_OUT=")
	out, err := cmd.Output()
	if err != nil {
		sim.Infra("fresh-process solo run failed: %v", err)
	}
	f := strings.SplitN(strings.TrimSpace(string(out)), "\t", 2)
	if len(f) != 2 {
		sim.Infra("fresh-process solo run printed %q", out)
	}
	return f[0], f[1]
}

// coldCase draws a cold-start case: several copies of one short task started
// together as the first thing the process does with the library.
func coldCase(r *sim.Rng) *ConcCase {
	c := &ConcCase{Mode: "free", Cold: true, Procs: sim.Pick(r, []int{4, 16}), Reps: 2}
	var t ConcTask
	switch r.Intn(5) {
	case 0, 1:
		t = ConcTask{R: &RCase{Stream: StreamRecipe{Kind: "refenc-xz", Seed: r.Uint64()}, Src: genSrcPlan(r), Reads: []int{64}, RDict: 4096}}
		tmp := &ConcCase{Mode: "free", Tasks: []ConcTask{t, t}}
		unusualHeaders(r, &tmp.Tasks[0])
		t = tmp.Tasks[0]
	case 2:
		w := genXZWCase(r, "src", 0, false)
		w.Payload = sim.GenPayload(r, 600)
		w.Ops = []Op{{K: "w", N: w.Payload.Len()}, {K: "c"}}
		if w.XZ.BlockSize > 0 && w.XZ.BlockSize < 64 {
			w.XZ.BlockSize = 100
		}
		t = ConcTask{W: w}
	default:
		t = genConcTask(r)
	}
	b, _ := json.Marshal(t)
	for k, n := 0, r.Range(3, 8); k < n; k++ {
		var u ConcTask
		json.Unmarshal(b, &u)
		c.Tasks = append(c.Tasks, u)
	}
	return c
}

// unusualHeaders re-seeds a refenc-xz reader task so that its stream has block
// headers with size fields or more padding than needed (if one is found).
func unusualHeaders(r *sim.Rng, t *ConcTask) {
	for try := 0; try < 20; try++ {
		seed := r.Uint64()
		f := xzSpans((&StreamRecipe{Kind: "refenc-xz", Seed: seed}).Build().Stream)
		if f == nil {
			continue
		}
		for _, st := range f.Streams {
			for _, bl := range st.Blocks {
				if bl.HeaderPadding > 3 || bl.HasCompSize || bl.HasUncompSize {
					t.R.Stream.Seed = seed
					return
				}
			}
		}
	}
}

// runColdFresh runs a cold-start case in up to reps fresh processes of this
// binary (the race-detector build when that is what runs) and returns the
// first violation or race report.
func runColdFresh(c *ConcCase, reps int) *sim.Violation {
	self, err := os.Executable()
	if err != nil {
		sim.Infra("cannot locate own binary: %v", err)
	}
	return runColdFreshWith(self, c, reps)
}

func runColdFreshWith(self string, c *ConcCase, reps int) *sim.Violation {
	b, _ := json.Marshal(c)
	for i := 0; i < reps; i++ {
		rep, _ := os.CreateTemp("", "verif-c14-race-")
		rep.Close()
		cmd := exec.Command(self, "c14case")
		cmd.Stdin = bytes.NewReader(b)
		cmd.Env = append(os.Environ(), "VERIF_C14_INPROC=1", "VERIF_C14_MODE=race", "VERIF_SHARD=", "VERIF_SHARD_OUT=",
			"GORACE=halt_on_error=1 exitcode=66 log_path="+rep.Name())
		out, err := cmd.Output()
		files, _ := filepath.Glob(rep.Name() + "*")
		detail := ""
		for _, f := range files {
			if bb, e := os.ReadFile(f); e == nil && len(bb) > 0 {
				detail = firstLinesStr(string(bb), 40)
			}
			os.Remove(f)
		}
		if ee, ok := err.(*exec.ExitError); ok && ee.ExitCode() == 66 {
			return sim.Viol("data-race", "race-detector:cold-start", "%s", detail)
		}
		var o concOutcome
		if jerr := json.Unmarshal(out, &o); jerr != nil {
			sim.Infra("cold-start case in a fresh process failed: %v %v (output %q)", err, jerr, string(out))
		}
		if o.Infra != "" {
			sim.Infra("%s", o.Infra)
		}
		if o.Violation != nil {
			return o.Violation
		}
	}
	return nil
}

// concOutcome is what a case run in a child process reports back.
type concOutcome struct {
	Violation *sim.Violation   `json:"violation,omitempty"`
	Counters  map[string]int64 `json:"counters"`
	Infra     string           `json:"infra,omitempty"`
}

// runConcCaseFresh runs the case in a fresh process of this binary.
func runConcCaseFresh(c *ConcCase, x *sim.Ctx) *sim.Violation {
	self, err := os.Executable()
	if err != nil {
		sim.Infra("cannot locate own binary: %v", err)
	}
	b, _ := json.Marshal(c)
	cmd := exec.Command(self, "c14case")
	cmd.Stdin = bytes.NewReader(b)
	cmd.Env = append(os.Environ(), "VERIF_C14_INPROC=1", "VERIF_SHARD=", "VERIF_SHARD_OUT=")
	out, err := cmd.Output()
	var o concOutcome
	if jerr := json.Unmarshal(out, &o); jerr != nil {
		sim.Infra("case in a fresh process failed: %v %v (output %q)", err, jerr, string(out))
	}
	if o.Infra != "" {
		sim.Infra("%s", o.Infra)
	}
	for k, v := range o.Counters {
		x.Count(k, v)
	}
	x.Shape(fmt.Sprintf("%s:n%d", c.Mode, len(c.Tasks)))
	x.Eval(1)
	x.Nontrivial(1)
	if o.Violation != nil {
		x.Ev("violation %s %s", o.Violation.Class, o.Violation.Site)
	}
	return o.Violation
}

func init() {
	sim.Subcommands["c14case"] = func(args []string) int {
		var c ConcCase
		var o concOutcome
		if err := json.NewDecoder(os.Stdin).Decode(&c); err != nil {
			fmt.Fprintln(os.Stderr, err)
			return 2
		}
		x := sim.NewCtx(false)
		func() {
			defer func() {
				if r := recover(); r != nil {
					o.Infra = fmt.Sprint(r)
				}
			}()
			o.Violation = runConcCase(&c, x)
		}()
		o.Counters = x.Counters
		b, _ := json.Marshal(o)
		os.Stdout.Write(b)
		return 0
	}
	sim.Subcommands["solotask"] = func(args []string) int {
		var t ConcTask
		if err := json.NewDecoder(os.Stdin).Decode(&t); err != nil {
			fmt.Fprintln(os.Stderr, err)
			return 2
		}
		d, det := runTask(&t, nil)
		fmt.Printf("%s\t%s\n", d, det)
		return 0
	}
}

type schedEvent struct {
	id   int
	done bool
}

// runLockstep runs the tasks as goroutines of which exactly one proceeds at a
// time; the seeded scheduler picks the next one whenever the running task
// parks. It returns the digests and the schedule.
func runLockstep(tasks []ConcTask, seed uint64, shared any) (digests []string, details []string, schedule []int) {
	n := len(tasks)
	digests = make([]string, n)
	details = make([]string, n)
	ev := make(chan schedEvent)
	grant := make([]chan struct{}, n)
	for i := range grant {
		grant[i] = make(chan struct{})
	}
	var infra any
	var mu sync.Mutex
	for i := 0; i < n; i++ {
		go func(i int) {
			defer func() {
				if r := recover(); r != nil {
					mu.Lock()
					infra = r
					mu.Unlock()
				}
				ev <- schedEvent{i, true}
			}()
			yield := func() {
				ev <- schedEvent{i, false}
				<-grant[i]
			}
			yield() // park before the first action
			digests[i], details[i] = runTaskShared(&tasks[i], yield, shared)
		}(i)
	}
	r := sim.NewRng(seed)
	parked := make([]bool, n)
	live := n
	nparked := 0
	// all tasks park initially
	for nparked < live {
		e := <-ev
		if e.done {
			live--
		} else {
			parked[e.id] = true
			nparked++
		}
	}
	for live > 0 {
		// choose among parked tasks
		k := r.Intn(nparked)
		id := -1
		for i := 0; i < n; i++ {
			if parked[i] {
				if k == 0 {
					id = i
					break
				}
				k--
			}
		}
		schedule = append(schedule, id)
		parked[id] = false
		nparked--
		grant[id] <- struct{}{}
		e := <-ev // the released task parks again or finishes
		if e.done {
			live--
		} else {
			parked[e.id] = true
			nparked++
		}
	}
	if infra != nil {
		panic(infra)
	}
	return
}

func runConcCase(c *ConcCase, x *sim.Ctx) *sim.Violation {
	n := len(c.Tasks)
	x.Shape(fmt.Sprintf("%s:n%d", c.Mode, n))
	// In the unsynchronised mode the concurrent phase runs first: whatever the
	// package initialises lazily on first use is then first used concurrently
	// (a warm-up by sequential reference runs would hide a cold-start race).
	var early []string
	var earlyDet []string
	if c.Mode == "free" {
		early, earlyDet = runFree(c.Tasks, c.Procs)
		x.Eval(1)
	}
	// reference: each task alone, twice
	solo := make([]string, n)
	soloDetail := make([]string, n)
	for i := range c.Tasks {
		solo[i], soloDetail[i] = runTask(&c.Tasks[i], nil)
		again, _ := runTask(&c.Tasks[i], nil)
		if again != solo[i] {
			return sim.Viol("nondeterministic-output", taskKind(&c.Tasks[i]), "task %d run alone twice gives different results (%s)", i, soloDetail[i])
		}
		x.Ev("solo %d %s %s", i, solo[i], soloDetail[i])
	}
	// identical tasks must give identical results
	for i := 0; i < n; i++ {
		for j := i + 1; j < n; j++ {
			a, _ := json.Marshal(c.Tasks[i])
			b, _ := json.Marshal(c.Tasks[j])
			if bytes.Equal(a, b) {
				x.Probe("identical-tasks")
				if solo[i] != solo[j] {
					return sim.Viol("nondeterministic-output", taskKind(&c.Tasks[i]), "identical tasks %d and %d give different results", i, j)
				}
			}
		}
	}
	x.Nontrivial(1)
	switch c.Mode {
	case "lockstep":
		// the number of Ps the Go scheduler may use is part of the scenario
		// (per-P caches such as sync.Pool behave differently with one P)
		defer runtime.GOMAXPROCS(runtime.GOMAXPROCS([]int{1, 1, 4, 16}[c.SchedSeed%4]))
		var shared any
		if c.SharedProps {
			shared = &lzma.Properties{}
			x.Probe("shared-properties-value")
		}
		d, det, sched := runLockstep(c.Tasks, c.SchedSeed, shared)
		x.Step("schedule", int64(len(sched)))
		x.Count("context-switches", int64(switches(sched)))
		x.Ev("schedule %v", sched)
		for i := range d {
			if d[i] != solo[i] {
				return sim.Viol("interference", taskKind(&c.Tasks[i]), "task %d under the lock-step schedule (%d steps, %d switches) differs from its solo run: %s vs solo %s", i, len(sched), switches(sched), det[i], soloDetail[i])
			}
		}
		// The solo runs above share this process with one another: state a
		// task leaves behind (a default mutated in place, a pooled buffer)
		// would taint the later references. A third of the cases therefore
		// also compare with each task run alone in a fresh process.
		if c.SchedSeed%3 == 0 || hasViaVerify(c) || c.Siblings {
			x.Probe("fresh-process-references")
			for i := range c.Tasks {
				fd, fdet := soloFresh(&c.Tasks[i])
				x.Eval(1)
				if fd != solo[i] {
					return sim.Viol("nondeterministic-output", taskKind(&c.Tasks[i])+":fresh-process", "task %d gives %s in a fresh process but %s alone in this process, after the other tasks' runs (state left behind by another instance)", i, fdet, soloDetail[i])
				}
			}
		}
	case "free":
		reps := c.Reps
		if reps < 1 {
			reps = 1
		}
		for rep := 0; rep < reps; rep++ {
			d, det := early, earlyDet
			if rep > 0 {
				d, det = runFree(c.Tasks, c.Procs)
				x.Eval(1)
			}
			for i := range d {
				if d[i] != solo[i] {
					return sim.Viol("interference", taskKind(&c.Tasks[i])+":free", "task %d running concurrently (GOMAXPROCS %d) differs from its solo run: %s vs solo %s", i, c.Procs, det[i], soloDetail[i])
				}
			}
		}
	default:
		sim.Infra("unknown mode %q", c.Mode)
	}
	return nil
}

func hasViaVerify(c *ConcCase) bool {
	for _, t := range c.Tasks {
		if w := t.W; w != nil && ((w.XZ != nil && w.XZ.ViaVerify) || (w.LZ != nil && w.LZ.ViaVerify) || (w.L2 != nil && w.L2.ViaVerify)) {
			return true
		}
	}
	return false
}

// runFree starts all tasks together with no harness synchronisation between
// them and joins them once.
func runFree(tasks []ConcTask, procs int) (d, det []string) {
	n := len(tasks)
	if procs > 0 {
		defer runtime.GOMAXPROCS(runtime.GOMAXPROCS(procs))
	}
	d = make([]string, n)
	det = make([]string, n)
	var wg sync.WaitGroup
	start := make(chan struct{})
	// every task prepares its input (building a stream can take far longer than
	// reading it) and then waits until all are ready: the first library calls -
	// constructors, header parsing, lazily initialised package state - happen
	// together and not one task after the other
	var ready int32
	var infra any
	var mu sync.Mutex
	for i := 0; i < n; i++ {
		wg.Add(1)
		go func(i int) {
			defer wg.Done()
			arrived := false
			arrive := func() {
				if !arrived {
					arrived = true
					// a spinning barrier: everybody leaves it within nanoseconds
					// (a sleeping one wakes its waiters one after the other, and a
					// short task is done before the next one has started)
					atomic.AddInt32(&ready, 1)
					for atomic.LoadInt32(&ready) < int32(n) {
						runtime.Gosched()
					}
				}
			}
			defer func() {
				if r := recover(); r != nil {
					mu.Lock()
					infra = r
					mu.Unlock()
				}
				if !arrived {
					arrived = true
					atomic.AddInt32(&ready, 1) // a task that failed before its first call must not hold up the others
				}
			}()
			<-start
			d[i], det[i] = runTask(&tasks[i], arrive)
		}(i)
	}
	close(start)
	wg.Wait()
	if infra != nil {
		panic(infra)
	}
	return d, det
}

func switches(s []int) int {
	k := 0
	for i := 1; i < len(s); i++ {
		if s[i] != s[i-1] {
			k++
		}
	}
	return k
}

func taskKind(t *ConcTask) string {
	if t.Bad != nil {
		return "invalid-config-" + t.Bad.Format
	}
	if t.W != nil {
		return "writer-" + t.W.Format
	}
	return "reader-" + strings.TrimPrefix(t.R.Stream.Kind, "refenc-")
}

// raceHalf runs the unsynchronised half under the race detector in child
// processes built with -race (bin/verif-race, built by the check script). Each
// child is a fresh process (a cold start of the package) that runs its share of
// the cases one at a time, so that a race report can be attributed to the case
// that was running.
func raceHalf(tier string, seed uint64, cov map[string]any) (int, []string) {
	bin := filepath.Join(sim.BinDir(), "verif-race")
	if _, err := os.Stat(bin); err != nil {
		cov["race_detector_half"] = "not run: bin/verif-race missing"
		return 2, []string{"INFRA: bin/verif-race missing (the check script builds it)"}
	}
	dir := filepath.Join(sim.VerifDir(), "replays")
	os.MkdirAll(dir, 0o755)
	const procs = 8
	type child struct {
		code     int
		out      string
		progress string
		report   string
		shardOut string
		err      error
	}
	kids := make([]child, procs)
	var wg sync.WaitGroup
	for i := 0; i < procs; i++ {
		wg.Add(1)
		go func(i int) {
			defer wg.Done()
			k := &kids[i]
			k.progress = filepath.Join(dir, fmt.Sprintf("C14-race-progress-%d-%d.jsonl", os.Getpid(), i))
			k.report = filepath.Join(dir, fmt.Sprintf("C14-race-report-%d-%d", os.Getpid(), i))
			k.shardOut = filepath.Join(dir, fmt.Sprintf("C14-race-shard-%d-%d.json", os.Getpid(), i))
			cmd := exec.Command(bin, "check", "C14", "--tier", tier, "--seed", fmt.Sprint(seed))
			cmd.Env = append(os.Environ(), "VERIF_C14_MODE=race", "VERIF_C14_PROGRESS="+k.progress,
				"GORACE=halt_on_error=1 exitcode=66 log_path="+k.report,
				fmt.Sprintf("VERIF_SHARD=%d/%d", i, procs), "VERIF_SHARD_OUT="+k.shardOut)
			out, err := cmd.CombinedOutput()
			k.out = string(out)
			if ee, ok := err.(*exec.ExitError); ok {
				k.code = ee.ExitCode()
			} else if err != nil {
				k.err = err
			}
		}(i)
	}
	wg.Wait()
	defer func() {
		for _, k := range kids {
			os.Remove(k.progress)
			os.Remove(k.shardOut)
		}
	}()
	var completed, evals int64
	for i := range kids {
		k := &kids[i]
		if k.err != nil {
			return 2, []string{"INFRA: race half: " + k.err.Error()}
		}
		if b, err := os.ReadFile(k.shardOut); err == nil {
			var r struct {
				Completed int64  `json:"completed"`
				Evals     int64  `json:"evals"`
				Infra     string `json:"infra"`
				Founds    []struct {
					V    *sim.Violation  `json:"v"`
					Case json.RawMessage `json:"case"`
				} `json:"founds"`
			}
			if json.Unmarshal(b, &r) == nil {
				completed += r.Completed
				evals += r.Evals
				if r.Infra != "" {
					return 2, []string{"INFRA: race half: " + r.Infra}
				}
				for _, f := range r.Founds {
					rf := sim.ReplayFile{Property: "C14", Engine: "conc", Seed: seed, Tree: "see git", Scenario: f.Case, Violation: f.V}
					b, _ := json.MarshalIndent(rf, "", " ")
					path := filepath.Join(dir, fmt.Sprintf("C14-free-%s-seed%d.json", f.V.Class, seed))
					os.WriteFile(path, b, 0o644)
					return 1, []string{fmt.Sprintf("VIOLATION property=C14 replay=%s", path), fmt.Sprintf("  class=%s site=%s detail=%s", f.V.Class, f.V.Site, f.V.Detail)}
				}
			}
		}
		switch k.code {
		case 0:
		case 66:
			var last json.RawMessage
			if b, err := os.ReadFile(k.progress); err == nil {
				lines := bytes.Split(bytes.TrimSpace(b), []byte("\n"))
				last = lines[len(lines)-1]
			}
			rep, _ := filepath.Glob(k.report + "*")
			detail := "data race reported by the race detector"
			if len(rep) > 0 {
				if b, err := os.ReadFile(rep[0]); err == nil {
					detail = firstLinesStr(string(b), 40)
				}
			}
			rf := sim.ReplayFile{Property: "C14", Engine: "conc", Seed: seed, Tree: "see git", Scenario: last,
				Violation: &sim.Violation{Class: "data-race", Site: "race-detector", Detail: detail}}
			b, _ := json.MarshalIndent(rf, "", " ")
			path := filepath.Join(dir, fmt.Sprintf("C14-data-race-seed%d.json", seed))
			os.WriteFile(path, b, 0o644)
			return 1, []string{fmt.Sprintf("VIOLATION property=C14 replay=%s", path), "  class=data-race " + firstLinesStr(detail, 12)}
		default:
			return 2, append([]string{fmt.Sprintf("INFRA: race half child %d exited %d", i, k.code)}, lastLines(k.out, 3)...)
		}
	}
	// cold starts: many short-lived processes, each running one case of
	// identical short tasks as its very first use of the library
	ncold := 64
	if tier == "thorough" {
		ncold = 800
	}
	cr := sim.NewRng(sim.Mix(seed, sim.Tag("C14-cold")))
	colds := make([]*ConcCase, ncold)
	for i := range colds {
		colds[i] = coldCase(cr)
	}
	coldV := make([]*sim.Violation, ncold)
	var infraMsg string
	sem := make(chan struct{}, 16)
	var cwg sync.WaitGroup
	var cmu sync.Mutex
	for i := range colds {
		cwg.Add(1)
		sem <- struct{}{}
		go func(i int) {
			defer cwg.Done()
			defer func() {
				<-sem
				if r := recover(); r != nil {
					cmu.Lock()
					infraMsg = fmt.Sprint(r)
					cmu.Unlock()
				}
			}()
			coldV[i] = runColdFreshWith(bin, colds[i], 1)
		}(i)
	}
	cwg.Wait()
	if infraMsg != "" {
		return 2, []string{"INFRA: race half (cold starts): " + infraMsg}
	}
	for i, v := range coldV {
		if v != nil {
			cb, _ := json.Marshal(colds[i])
			rf := sim.ReplayFile{Property: "C14", Engine: "conc", Seed: seed, Tree: "see git", Scenario: cb, Violation: v}
			b, _ := json.MarshalIndent(rf, "", " ")
			path := filepath.Join(dir, fmt.Sprintf("C14-cold-%s-seed%d.json", v.Class, seed))
			os.WriteFile(path, b, 0o644)
			return 1, []string{fmt.Sprintf("VIOLATION property=C14 replay=%s", path), "  class=" + v.Class + " site=" + v.Site + " " + firstLinesStr(v.Detail, 12)}
		}
	}
	cov["race_detector_cold_starts"] = map[string]any{
		"what":      "cases of 3-8 identical short tasks (foreign xz streams with unusual block headers, xz writers, others), each the first use of the library in a fresh -race process, started behind a spinning barrier",
		"processes": ncold,
	}
	cov["race_detector_half"] = map[string]any{
		"what":             "the same kind of task sets started together with no harness synchronisation, binary built with -race, GOMAXPROCS 1/4/16, in 8 fresh processes (each a cold start of the package: the concurrent phase runs before any sequential reference run); this half observes schedules the harness does not control (monitoring), it is included because the property names the race detector and lock-step parking would blind it",
		"cases_completed":  completed,
		"evaluations":      evals,
		"child_processes":  procs,
		"race_reports":     0,
		"replay_of_a_race": "re-runs the task set under -race (first in a fresh process)",
	}
	return 0, []string{fmt.Sprintf("race-detector half: %d task sets in %d fresh processes, no race report, every task equals its solo run; %d cold-start processes clean", completed, procs, ncold)}
}

func lastLines(s string, n int) []string {
	l := strings.Split(strings.TrimSpace(s), "\n")
	if len(l) > n {
		l = l[len(l)-n:]
	}
	return l
}

func firstLinesStr(s string, n int) string {
	l := strings.Split(s, "\n")
	if len(l) > n {
		l = l[:n]
	}
	return strings.Join(l, "\n")
}

func init() {
	raceMode := os.Getenv("VERIF_C14_MODE") == "race"
	spec := sim.Spec[ConcCase]{
		Property:  "C14",
		Engine:    "conc",
		Level:     "exploration",
		Technique: "deterministic simulation of N caller tasks, each owning its own reader or writer, under a seeded lock-step scheduler that decides at every API call and every sink/source call which task proceeds (replayable schedules), each task's full observable result compared with its solo run; plus the same task sets run unsynchronised under the Go race detector",
		Rule: "case = (2..8 tasks: xz/LZMA/LZMA2 writers with inputs cut into many small writes and readers with small reads over fragmenting sources, some tasks deliberately identical; scheduler seed); " +
			"oracle: two solo runs identical, identical tasks identical, every task's result (sink image or delivered bytes, every call's (n, err)) under the schedule equals its solo result; non-trivial = every case; distinct = distinct scenario digests",
		Gen: genConcCase,
		Run: func(c *ConcCase, x *sim.Ctx) *sim.Violation {
			if raceMode {
				if p := os.Getenv("VERIF_C14_PROGRESS"); p != "" {
					b, _ := json.Marshal(c)
					f, err := os.OpenFile(p, os.O_APPEND|os.O_CREATE|os.O_WRONLY, 0o644)
					if err == nil {
						f.Write(append(b, '\n'))
						f.Close()
					}
				}
			}
			if c.Cold && os.Getenv("VERIF_C14_INPROC") == "" {
				// (replay of a cold-start finding: up to 40 fresh processes)
				return runColdFresh(c, 40)
			}
			if c.Mode == "lockstep" && os.Getenv("VERIF_C14_INPROC") == "" {
				// one case, one process: whatever an earlier case left behind in
				// package-level state cannot reach this one, so every violation is
				// a function of the case alone and replays
				return runConcCaseFresh(c, x)
			}
			return runConcCase(c, x)
		},
		Shrink: func(c *ConcCase) []*ConcCase {
			var out []*ConcCase
			if len(c.Tasks) > 2 {
				for i := range c.Tasks {
					d := *c
					d.Tasks = append(append([]ConcTask{}, c.Tasks[:i]...), c.Tasks[i+1:]...)
					out = append(out, &d)
				}
			}
			return out
		},
		Runs: func(tier string) int {
			if raceMode {
				if tier == "thorough" {
					return 20000
				}
				return 400
			}
			if tier == "thorough" {
				return 400000
			}
			return 6000
		},
		Budget: func(tier string) time.Duration {
			if raceMode {
				if tier == "thorough" {
					return 8 * time.Minute
				}
				return 25 * time.Second
			}
			if tier == "thorough" {
				return 15 * time.Minute
			}
			return 35 * time.Second
		},
		RunDeadline: 120 * time.Second,
		Assumptions: []string{
			"lock-step parking creates happens-before edges between all segments, so this half cannot see data races; it detects state that survives across an API or I/O boundary (shared pools, tables, caches)",
			"the race-detector half observes schedules chosen by the Go runtime (not replayable by index; the replay re-runs the task set 200 times under -race)",
			"no yield points inside the codecs' inner loops (no hook in /repo)",
		},
		Components: components,
	}
	if raceMode {
		spec.Workers = 1 // one case at a time so that a race report can be attributed
	} else {
		// one case at a time per process: the only concurrency in a lock-step
		// process is the one the seeded scheduler controls (worker goroutines
		// running other cases would be uncontrolled "other instances")
		spec.Procs = true
		if os.Getenv("VERIF_C14_SKIP_RACE") == "" {
			spec.Post = raceHalf
		}
	}
	sim.Register(spec)
}
