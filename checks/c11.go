package checks

import (
	"bytes"
	"encoding/binary"
	"encoding/hex"
	"hash/crc32"
	"time"

	"verif/ref/refxz"
	"verif/sim"
	"verif/simio"
)

// HCase is a hostile-input scenario.
type HCase struct {
	Format string           `json:"format"` // xz | lzma | lzma2
	Kind   string           `json:"kind"`   // mutate | structured | prng | literal
	Base   *StreamRecipe    `json:"base,omitempty"`
	Seed   uint64           `json:"seed,omitempty"`
	Hex    string           `json:"hex,omitempty"`
	Src    simio.SourcePlan `json:"src"`
	Reads  []int            `json:"reads"`
	RDict  int              `json:"rdict,omitempty"`
}

const maxDeclaredDict = 64 << 20

// reseal recomputes every CRC32 of an .xz-like image at the offsets where the
// original had its structures (best effort: used to let damage reach the
// decoders instead of stopping at the first checksum).
func resealAll(img []byte, f *refxz.File) {
	for _, s := range f.Spans {
		if s.End > len(img) {
			continue
		}
		switch s.Kind {
		case "stream-header", "block-header", "index", "footer":
			refxz.Reseal(img, s)
		}
	}
}

// declaredDictTooBig applies the exclusion of the property: inputs whose
// declared dictionary exceeds 64 MiB are not part of the claim.
func declaredDictTooBig(format string, img []byte) bool {
	switch format {
	case "lzma":
		if len(img) >= 5 {
			return binary.LittleEndian.Uint32(img[1:5]) > maxDeclaredDict
		}
	case "xz":
		// an LZMA2 filter declaration: id 0x21, property size 1, dictionary byte
		for i := 0; i+2 < len(img); i++ {
			if img[i] == 0x21 && img[i+1] == 0x01 && img[i+2] > 28 && img[i+2] <= 40 {
				return true
			}
		}
	}
	return false
}

func mutateBytes(r *sim.Rng, img []byte) []byte {
	if len(img) == 0 {
		return r.Bytes(r.Range(1, 20))
	}
	p := r.Intn(len(img))
	switch r.Intn(8) {
	case 0, 1:
		img[p] ^= 1 << uint(r.Intn(8))
	case 2:
		img[p] = byte(r.Intn(256))
	case 3:
		l := r.Range(1, 40)
		if p+l > len(img) {
			l = len(img) - p
		}
		img = append(img[:p], img[p+l:]...)
	case 4:
		ins := r.Bytes(r.Range(1, 40))
		img = append(append(append([]byte(nil), img[:p]...), ins...), img[p:]...)
	case 5:
		img = img[:p] // truncate
	case 6:
		// copy a slice of the image over another place
		l := r.Range(1, 64)
		q := r.Intn(len(img))
		for i := 0; i < l && p+i < len(img) && q+i < len(img); i++ {
			img[p+i] = img[q+i]
		}
	default:
		v := sim.Pick(r, []byte{0x00, 0xff, 0x7f, 0x80, 0x01})
		l := r.Range(1, 12)
		for i := 0; i < l && p+i < len(img); i++ {
			img[p+i] = v
		}
	}
	return img
}

func uvarint(v uint64) []byte { return refxz.PutVarint(nil, v) }

// hostileVarint is a variable-length integer field as an attacker writes it:
// a value's regular encoding, or an encoding that overflows 64 bits (a tenth
// byte above 1, more than ten bytes) or is not minimal.
func hostileVarint(r *sim.Rng, values []uint64) []byte {
	switch r.Intn(6) {
	case 0:
		return append(bytes.Repeat([]byte{0xff}, 9), byte(r.Range(2, 0x7f))) // tenth byte overflows
	case 1:
		return append(bytes.Repeat([]byte{0x80 | byte(r.Intn(128))}, r.Range(10, 14)), byte(r.Intn(128))) // too long
	case 2:
		return append(uvarint(sim.Pick(r, values) | 0x80)[:1], 0x80, 0x00) // not minimal
	}
	return uvarint(sim.Pick(r, values))
}

// structuredGarbage builds header-valid garbage.
func structuredGarbage(r *sim.Rng, format string) []byte {
	switch format {
	case "lzma":
		h := make([]byte, 13)
		h[0] = byte(r.Intn(225))
		if r.Chance(1, 10) {
			h[0] = byte(r.Intn(256))
		}
		binary.LittleEndian.PutUint32(h[1:], uint32(sim.Pick(r, []int{0, 1, 4096, 65536, 1 << 20, 1 << 26, 12345})))
		sz := sim.Pick(r, []uint64{0, 1, 100, 100000, 1<<64 - 1, 1 << 40, 1<<63 - 1})
		binary.LittleEndian.PutUint64(h[5:], sz)
		body := r.Bytes(r.Range(0, 600))
		if len(body) > 0 && r.Chance(3, 4) {
			body[0] = 0
		}
		return append(h, body...)
	case "lzma2":
		var out []byte
		for i, n := 0, r.Range(1, 6); i < n; i++ {
			ctl := byte(r.Intn(256))
			switch r.Intn(4) {
			case 0:
				ctl = sim.Pick(r, []byte{1, 2, 0xE0, 0xC0, 0xA0, 0x80})
			case 1:
				ctl = 0xE0 | byte(r.Intn(32))
			}
			out = append(out, ctl)
			if ctl == 0 {
				continue
			}
			u := r.Range(0, 300)
			if r.Chance(1, 6) {
				u = r.Intn(65536)
			}
			out = append(out, byte(u>>8), byte(u))
			n := u + 1
			if ctl >= 0x80 {
				cmp := r.Range(0, 300)
				out = append(out, byte(cmp>>8), byte(cmp))
				if ctl >= 0xC0 {
					out = append(out, byte(r.Intn(256)))
				}
				n = cmp + 1
			}
			if r.Chance(1, 4) {
				n = r.Range(0, n)
			}
			body := r.Bytes(n)
			if len(body) > 0 && r.Bool() {
				body[0] = 0
			}
			out = append(out, body...)
		}
		return out
	}
	// xz
	check := sim.Pick(r, []byte{0, 1, 4, 10})
	out := refxz.StreamHeader(check)
	switch r.Intn(5) {
	case 0: // valid block header, garbage data
		h := []byte{0, byte(r.Intn(4)) << 6}
		if h[1]&0x40 != 0 {
			h = append(h, hostileVarint(r, []uint64{1, 5, 1 << 20, 1<<63 - 1, 1 << 62, 1 << 63, 1<<64 - 1})...)
		}
		if h[1]&0x80 != 0 {
			h = append(h, hostileVarint(r, []uint64{0, 5, 1 << 20, 1<<63 - 1, 1 << 63, 1<<64 - 2})...)
		}
		if r.Chance(1, 3) {
			// hostile filter fields: id and size of properties are variable-length
			// integers too (ten-byte encodings reach 2^64-1)
			h = append(h, hostileVarint(r, []uint64{0x21, 0x21, 0x21, 3, 1 << 62, 1<<64 - 1})...)
			h = append(h, hostileVarint(r, []uint64{1, 0, 2, 2000, 1 << 20, 1 << 40, 1<<63 - 1, 1 << 63, 1<<64 - 1, 1<<64 - 2})...)
			h = append(h, r.Bytes(r.Range(0, 6))...)
		} else {
			h = append(h, 0x21, 0x01, byte(r.Intn(29)))
		}
		if r.Chance(1, 5) {
			h[1] |= byte(r.Range(1, 3)) // more filters announced than described
		}
		for (len(h)+4)%4 != 0 {
			h = append(h, 0)
		}
		h[0] = byte((len(h)+4)/4 - 1)
		var c [4]byte
		binary.LittleEndian.PutUint32(c[:], crc32.ChecksumIEEE(h))
		out = append(out, append(h, c[:]...)...)
		out = append(out, structuredGarbage(r, "lzma2")...)
		out = append(out, r.Bytes(r.Range(0, 60))...)
	case 1: // index with hostile numbers
		ix := []byte{0}
		ix = append(ix, hostileVarint(r, []uint64{0, 1, 2, 1 << 20, 1<<63 - 1, 1 << 62, 1 << 32})...)
		for i, n := 0, r.Intn(4); i < n; i++ {
			ix = append(ix, uvarint(r.Uint64()>>uint(r.Intn(64)))...)
		}
		for len(ix)%4 != 0 {
			ix = append(ix, 0)
		}
		var c [4]byte
		binary.LittleEndian.PutUint32(c[:], crc32.ChecksumIEEE(ix))
		out = append(out, append(ix, c[:]...)...)
		out = append(out, refxz.FooterRaw(0, check, uint32(r.Intn(8)))...)
	case 2: // over-long uvarints
		ix := []byte{0}
		for i, n := 0, r.Range(9, 12); i < n; i++ {
			ix = append(ix, 0x80|byte(r.Intn(128)))
		}
		ix = append(ix, byte(r.Intn(128)))
		out = append(out, ix...)
		out = append(out, r.Bytes(r.Range(0, 40))...)
	case 3: // block header size byte followed by PRNG
		out = append(out, byte(r.Range(1, 255)))
		out = append(out, r.Bytes(r.Range(0, 1100))...)
	default:
		out = append(out, r.Bytes(r.Range(0, 200))...)
	}
	return out
}

// buildHostile derives the hostile image of a case.
func buildHostile(c *HCase) []byte {
	switch c.Kind {
	case "literal":
		b, _ := hex.DecodeString(c.Hex)
		return b
	case "prng":
		r := sim.NewRng(c.Seed)
		return r.Bytes(r.Range(0, 4096))
	case "structured":
		return structuredGarbage(sim.NewRng(c.Seed), c.Format)
	case "mutate", "mutate-long":
		b := c.Base.Build()
		if b.Err != nil {
			if b.Err == errWriterFailed {
				return nil
			}
			sim.Infra("cannot build base stream: %v", b.Err)
		}
		r := sim.NewRng(c.Seed)
		img := append([]byte(nil), b.Stream...)
		depth := r.Range(1, 3)
		if c.Kind == "mutate-long" {
			// bit flips in the body only: the decoder keeps going with a damaged model
			for i := 0; i < depth; i++ {
				p := r.Range(len(img)/8, len(img)-1)
				img[p] ^= 1 << uint(r.Intn(8))
			}
		} else {
			for i := 0; i < depth; i++ {
				img = mutateBytes(r, img)
			}
		}
		if c.Format == "xz" && r.Bool() {
			if f := xzSpans(b.Stream); f != nil {
				resealAll(img, f)
			}
		}
		return img
	}
	sim.Infra("unknown hostile kind %q", c.Kind)
	return nil
}

func genHCase(r *sim.Rng, tier string, idx int) *HCase {
	c := &HCase{Src: genSrcPlan(r), Reads: genReads(r), Seed: r.Uint64(), RDict: 4096}
	if r.Chance(2, 3) {
		c.Src = simioWhole()
		c.Reads = []int{32768}
	}
	c.Format = sim.Pick(r, []string{"xz", "xz", "lzma", "lzma2"})
	switch r.Weighted([]int{6, 3, 1}) {
	case 0:
		c.Kind = "mutate"
		var s StreamRecipe
		if r.Chance(1, 8) {
			// a long stream over a small window: output of several windows, so that
			// damaged distances can point beyond the window but inside what was decoded
			n := r.Range(9000, 70000)
			pl := sim.Payload{Kind: sim.Pick(r, []string{"text", "text", "alpha", "period"}), N: n, Seed: r.Uint64(), A: r.Range(2, 300)}
			ops := []Op{{K: "w", N: n}, {K: "c"}}
			switch c.Format {
			case "xz":
				s = StreamRecipe{Kind: "lib", W: &WCase{Format: "xz", XZ: &XZCfg{LC: 3, PB: 2, DictCap: 4096, BufSize: 4096, CheckSum: sim.Pick(r, []byte{0, 1, 4}), NoCheckSum: r.Bool()}, Payload: pl, Ops: ops}}
			case "lzma":
				s = StreamRecipe{Kind: "lib", W: &WCase{Format: "lzma", LZ: &LZCfg{LC: 3, PB: 2, DictCap: 4096, BufSize: 4096, SizeInHeader: r.Bool(), Size: int64(n)}, Payload: pl, Ops: ops}}
				if !s.W.LZ.SizeInHeader {
					s.W.LZ.Size = 0
				}
			default:
				s = StreamRecipe{Kind: "lib", W: &WCase{Format: "lzma2", L2: &L2Cfg{LC: 3, PB: 2, DictCap: 4096, BufSize: 4096}, Payload: pl, Ops: ops}}
			}
			c.RDict = 4096
			c.Base = &s
			c.Kind = "mutate-long"
			return c
		}
		switch c.Format {
		case "xz":
			s = genDFStream(r, tier, false, 300)
		case "lzma":
			if r.Bool() {
				s = StreamRecipe{Kind: "refenc-alone", Seed: r.Uint64()}
			} else {
				w := genLZWCase(r, "src", false, false)
				if w.W.Payload.Len() > 400 {
					w.W.Payload = sim.GenPayload(r, 400)
					w.W.Ops = []Op{{K: "w", N: w.W.Payload.Len()}, {K: "c"}}
					if w.W.LZ.HasSize() {
						w.W.LZ.Size = int64(w.W.Payload.Len())
						w.W.LZ.SizeInHeader = true
					}
				}
				s = StreamRecipe{Kind: "lib", W: &w.W}
			}
		default:
			s = StreamRecipe{Kind: "refenc-l2", Seed: r.Uint64()}
			c.RDict = 1 << 20
		}
		c.Base = &s
	case 1:
		c.Kind = "structured"
	default:
		c.Kind = "prng"
	}
	return c
}

func runHCase(c *HCase, x *sim.Ctx) *sim.Violation {
	img := buildHostile(c)
	x.Shape(c.Format + ":" + c.Kind)
	if declaredDictTooBig(c.Format, img) {
		x.Count("excluded(declared-dictionary>64MiB)", 1)
		return nil
	}
	x.Nontrivial(1)
	x.Fault("hostile-" + c.Kind)
	rc := &RCase{Src: c.Src, Reads: c.Reads, RDict: c.RDict, PostEOF: []int{1}, PostErr: []int{7, 0, 4096, 1}}
	res := runReader(c.Format, img, 0, rc, 8<<20, x)
	class := "error"
	switch {
	case res.OpenErr != nil:
		class = "open-error"
	case res.Final == nil:
		class = "output-limit"
	case res.Final.Error() == "EOF":
		class = "clean-eof"
	}
	x.Count("outcome."+c.Format+"."+class, 1)
	x.Shape(class)
	if res.OpenPanic != nil {
		return sim.Viol("panic", "open:"+panicSite(res.OpenPanic), "opening hostile input panicked: %s [%s]", res.OpenPanic.Value, res.OpenPanic.Stack)
	}
	if res.Panic != nil {
		return sim.Viol("panic", "read:"+panicSite(res.Panic), "reading hostile input panicked: %s [%s]", res.Panic.Value, res.Panic.Stack)
	}
	if res.BadN != nil {
		return sim.Viol("bad-n", c.Format, "Read(len %d) returned n=%d", res.BadN.Len, res.BadN.N)
	}
	if res.NoProg {
		return sim.Viol("no-progress", c.Format, "Read keeps returning (0, nil) for non-empty buffers")
	}
	// step budget at the source seam
	if res.MaxEmptyPerRead > 16 {
		return sim.Viol("step-budget", c.Format+":empty-source-calls", "one Read made %d source calls that yielded no data", res.MaxEmptyPerRead)
	}
	if res.MaxSrcCallsPerRead > len(img)+16 {
		return sim.Viol("step-budget", c.Format+":source-calls", "one Read made %d source calls on a %d-byte input", res.MaxSrcCallsPerRead, len(img))
	}
	return nil
}

func shrinkHCase(c *HCase) []*HCase {
	var out []*HCase
	img := buildHostile(c)
	lit := func(b []byte) *HCase {
		d := *c
		d.Kind, d.Base, d.Hex = "literal", nil, hex.EncodeToString(b)
		return &d
	}
	if c.Kind != "literal" {
		out = append(out, lit(img))
		return out
	}
	n := len(img)
	for _, cut := range []int{n / 2, n * 3 / 4, n - 16, n - 1} {
		if cut > 0 && cut < n {
			out = append(out, lit(img[:cut]))
		}
	}
	for _, l := range []int{n / 4, 16, 4, 1} {
		if l <= 0 || l >= n {
			continue
		}
		for p := 0; p+l <= n && p < 64*l; p += l {
			out = append(out, lit(append(append([]byte(nil), img[:p]...), img[p+l:]...)))
		}
	}
	if c.Src.Frag != "whole" {
		d := *c
		d.Src = simioWhole()
		out = append(out, &d)
	}
	if len(c.Reads) != 1 || c.Reads[0] != 32768 {
		d := *c
		d.Reads = []int{32768}
		out = append(out, &d)
	}
	return out
}

func init() {
	sim.Register(sim.Spec[HCase]{
		Property:  "C11",
		Engine:    "dfault+rsim",
		Level:     "exploration",
		Technique: "deterministic simulation of hostile stored data: seeded, structure-aware fault injection (stacked bit/byte/range faults on valid streams with CRC32s re-sealed half of the time, header-valid garbage, plain PRNG bytes) read behind the simulated source with a per-Read step budget counted at the source seam and a wall-clock watchdog",
		Rule: "case = (format xz|lzma|lzma2; hostile image = up to 3 stacked faults on a valid stream | header-valid garbage | PRNG bytes; fragmentation plan; Read schedule); inputs declaring a dictionary > 64 MiB are excluded as the property says; " +
			"non-trivial = every non-excluded case; distinct = distinct scenario digests",
		Gen:    genHCase,
		Run:    runHCase,
		Shrink: shrinkHCase,
		Runs: func(tier string) int {
			if tier == "thorough" {
				return 30000000
			}
			return 600000
		},
		Budget: func(tier string) time.Duration {
			if tier == "thorough" {
				return 25 * time.Minute
			}
			return 50 * time.Second
		},
		RunDeadline:      30 * time.Second,
		StallIsViolation: true,
		Assumptions: []string{
			"'bounded time' is decided by a deterministic step budget at the source seam (<= 16 source calls without data per Read, <= len(input)+16 source calls per Read) plus a 30 s wall-clock watchdog per case for loops that never touch the source",
			"this is seeded, structure-aware fault injection without coverage feedback; coverage-guided fuzzing is a different technique and is not substituted for it",
			"reading stops after 8 MiB of output per case",
		},
		Components: components,
	})
}
