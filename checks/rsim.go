package checks

import (
	"bytes"
	"encoding/json"
	"fmt"
	"io"
	"os"
	"os/exec"
	"strings"

	"github.com/ulikunitz/xz"
	"github.com/ulikunitz/xz/lzma"

	"verif/sim"
	"verif/simio"
)

// RCase is a reader scenario: a stream, a source plan (fragmentation, fault),
// a Read-length schedule and the reader configuration.
type RCase struct {
	Stream StreamRecipe     `json:"stream"`
	Src    simio.SourcePlan `json:"src"`
	// Reads is the Read-length schedule, cycled. Special values: -1 = exactly
	// the remaining bytes (at least 1), -2 = remaining + 1.
	Reads   []int `json:"reads"`
	PostEOF []int `json:"post_eof,omitempty"` // reads issued after the first EOF
	PostErr []int `json:"post_err,omitempty"` // reads issued after the first non-EOF error
	RDict   int   `json:"rdict,omitempty"`
	Single  bool  `json:"single,omitempty"`
	// Cut truncates the stream to this many bytes (C05); -1/0 with !HasCut = none.
	HasCut bool `json:"has_cut,omitempty"`
	Cut    int  `json:"cut,omitempty"`
	// Only restricts enumeration engines to a single position.
	Only    int  `json:"only,omitempty"`
	HasOnly bool `json:"has_only,omitempty"`
	// Fresh: the case runs in a process of its own, because what it may
	// provoke - the runtime's "fatal error: stack overflow", memory exhaustion -
	// cannot be recovered from inside the process that meets it.
	Fresh bool `json:"fresh,omitempty"`
}

// freshOutcome is what the child process of a Fresh case reports.
type freshOutcome struct {
	Violation *sim.Violation   `json:"violation,omitempty"`
	Infra     string           `json:"infra,omitempty"`
	Counters  map[string]int64 `json:"counters,omitempty"`
}

// freshRunners maps a subcommand to the in-process runner of its check.
var freshRunners = map[string]func(c *RCase, x *sim.Ctx) *sim.Violation{}

// registerFresh makes "verif <verb>" run one RCase read from standard input.
func registerFresh(verb string, run func(c *RCase, x *sim.Ctx) *sim.Violation) {
	freshRunners[verb] = run
	sim.Subcommands[verb] = func(args []string) int {
		var c RCase
		var o freshOutcome
		if err := json.NewDecoder(os.Stdin).Decode(&c); err != nil {
			fmt.Fprintln(os.Stderr, err)
			return 2
		}
		c.Fresh = false
		x := sim.NewCtx(false)
		func() {
			defer func() {
				if r := recover(); r != nil {
					o.Infra = fmt.Sprint(r)
				}
			}()
			o.Violation = run(&c, x)
		}()
		o.Counters = x.Counters
		b, _ := json.Marshal(o)
		os.Stdout.Write(b)
		return 0
	}
}

// runFresh executes the case in a child process. A child that the Go runtime
// kills ("fatal error: ...", e.g. stack overflow - not a panic, not
// recoverable) is a violation of the no-panic clause every reader property
// implies; any other abnormal end is infrastructure trouble.
func runFresh(verb string, c *RCase, x *sim.Ctx) *sim.Violation {
	self, err := os.Executable()
	if err != nil {
		sim.Infra("cannot locate own binary: %v", err)
	}
	b, _ := json.Marshal(c)
	cmd := exec.Command(self, verb)
	cmd.Stdin = bytes.NewReader(b)
	cmd.Env = append(os.Environ(), "VERIF_SHARD=", "VERIF_SHARD_OUT=")
	var stderr bytes.Buffer
	cmd.Stderr = &stderr
	out, err := cmd.Output()
	var o freshOutcome
	if jerr := json.Unmarshal(out, &o); jerr != nil {
		msg := stderr.String()
		if i := strings.Index(msg, "fatal error: "); i >= 0 {
			line := msg[i:]
			if j := strings.IndexByte(line, '\n'); j >= 0 {
				line = line[:j]
			}
			x.Eval(1)
			x.Nontrivial(1)
			return sim.Viol("fatal", strings.TrimPrefix(line, "fatal error: "), "the Go runtime killed the process that ran the case: %s", line)
		}
		sim.Infra("case in a fresh process failed: %v (stderr %q)", err, tail(msg, 400))
	}
	if o.Infra != "" {
		sim.Infra("%s", o.Infra)
	}
	for k, v := range o.Counters {
		x.Count(k, v)
	}
	x.Probe("case-in-a-fresh-process")
	x.Eval(1)
	x.Nontrivial(1)
	return o.Violation
}

func tail(s string, n int) string {
	if len(s) > n {
		return s[len(s)-n:]
	}
	return s
}

// ReadRes is one observed Read call.
type ReadRes struct {
	Len int
	N   int
	Err error
}

// copyCollector is the destination of an io.Copy: a plain io.Writer.
type copyCollector struct{ b []byte }

func (c *copyCollector) Write(p []byte) (int, error) {
	c.b = append(c.b, p...)
	return len(p), nil
}

// RResult is the recorded history of a reader run.
type RResult struct {
	OpenErr   error
	OpenPanic *PanicInfo
	Panic     *PanicInfo
	Out       []byte
	Calls     []ReadRes
	Final     error // first non-nil error of Read (nil if the schedule ended first)
	Src       *simio.Source
	BadN      *ReadRes // a Read that returned n outside [0,len(p)]
	NoProg    bool     // repeated (0,nil) on non-empty buffers
	// MaxSrcCallsPerRead / MaxEmptyPerRead: step budget observations (C11).
	MaxSrcCallsPerRead int
	MaxEmptyPerRead    int
	Post               []ReadRes // reads after the first EOF
	PostErrReads       []ReadRes // reads after the first non-EOF error
	PostErrOut         []byte    // bytes those reads delivered
	PostErrEOF         bool      // one of them reported a clean end of stream (reading stops there)
}

func openReader(format string, src io.Reader, rdict int, single bool) (io.Reader, error) {
	if rdict == 0 && !single {
		// all defaults: the package-level constructors
		switch format {
		case "xz":
			return xz.NewReader(src)
		case "lzma":
			return lzma.NewReader(src)
		case "lzma2":
			return lzma.NewReader2(src)
		}
	}
	switch format {
	case "xz":
		return xzReaderCfg(rdict, single).NewReader(src)
	case "lzma":
		return lzma.ReaderConfig{DictCap: rdict}.NewReader(src)
	case "lzma2":
		return lzma.Reader2Config{DictCap: rdict}.NewReader2(src)
	}
	sim.Infra("unknown reader format %q", format)
	return nil, nil
}

// runReader opens the library reader of the given format over img behind a
// simulated source and drives it with the Read schedule until an error, or
// until limit bytes were delivered.
func runReader(format string, img []byte, want int, c *RCase, limit int, x *sim.Ctx) *RResult {
	res := &RResult{}
	src := simio.NewSource(img, c.Src)
	src.OnCall = x.Yield
	res.Src = src
	yield := func() {
		if x.Yield != nil {
			x.Yield()
		}
	}
	yield()
	var rd io.Reader
	x.Ev("open %s len=%d src=%+v rdict=%d single=%v", format, len(img), c.Src, c.RDict, c.Single)
	res.OpenPanic = guard(func() { rd, res.OpenErr = openReader(format, src.Reader(), c.RDict, c.Single) })
	x.Step("api", 1)
	x.Ev("open -> err=%v panic=%v srccalls=%d off=%d", res.OpenErr, res.OpenPanic != nil, src.Calls, src.Offset())
	if res.OpenPanic != nil || res.OpenErr != nil {
		x.Step("source", int64(src.Calls))
		return res
	}
	reads := c.Reads
	if len(reads) == 0 {
		reads = []int{32768}
	}
	var buf []byte
	zeroStreak := 0
	lastTok := ""
	for i := 0; ; i++ {
		l := reads[i%len(reads)]
		rem := want - len(res.Out)
		if rem < 0 {
			rem = 0
		}
		switch l {
		case -1:
			l = rem
			if l < 1 {
				l = 1
			}
		case -2:
			l = rem + 1
		case -3:
			// the caller hands the rest to io.Copy (which prefers the reader's
			// WriteTo if it has one); success of io.Copy is the clean end
			var cw copyCollector
			var n64 int64
			var err error
			yield()
			pn := guard(func() { n64, err = io.Copy(&cw, rd) })
			x.Step("api", 1)
			if pn != nil {
				res.Panic = pn
				x.Ev("io.Copy -> panic %s", pn.Value)
				break
			}
			res.Out = append(res.Out, cw.b...)
			x.Ev("io.Copy -> n=%d err=%v", n64, err)
			if int(n64) != len(cw.b) {
				res.BadN = &ReadRes{Len: -3, N: int(n64), Err: err}
				break
			}
			if err == nil {
				err = io.EOF
			}
			res.Calls = append(res.Calls, ReadRes{Len: -3, N: int(n64), Err: err})
			res.Final = err
		}
		if res.Final != nil || res.Panic != nil || res.BadN != nil {
			break
		}
		if i >= 300_000 && l > 0 && l < 4096 {
			// a multi-megabyte content under a schedule of tiny reads: after
			// 300 000 calls the tiny lengths are widened (deterministically, so
			// the run still replays) instead of issuing millions of calls
			l = 4096
		}
		if cap(buf) < l {
			buf = make([]byte, l)
		}
		p := buf[:l]
		var n int
		var err error
		c0, e0 := src.Calls, src.Empty
		yield()
		pn := guard(func() { n, err = rd.Read(p) })
		x.Step("api", 1)
		if d := src.Calls - c0; d > res.MaxSrcCallsPerRead {
			res.MaxSrcCallsPerRead = d
		}
		if d := src.Empty - e0; d > res.MaxEmptyPerRead {
			res.MaxEmptyPerRead = d
		}
		if pn != nil {
			res.Panic = pn
			x.Ev("read(%d) -> panic %s", l, pn.Value)
			break
		}
		rr := ReadRes{Len: l, N: n, Err: err}
		res.Calls = append(res.Calls, rr)
		tok := "r" + sim.Bucket(l) + sim.Bucket(n)
		if err != nil {
			tok += "E"
		}
		if tok != lastTok {
			x.Shape(tok)
			lastTok = tok
		}
		x.Ev("read(%d) -> n=%d err=%v", l, n, err)
		if n < 0 || n > l {
			res.BadN = &rr
			break
		}
		res.Out = append(res.Out, p[:n]...)
		if err != nil {
			res.Final = err
			break
		}
		if n == 0 && l > 0 {
			zeroStreak++
			if zeroStreak > 64 {
				res.NoProg = true
				break
			}
		} else if l > 0 {
			zeroStreak = 0
		}
		if limit > 0 && len(res.Out) > limit {
			break
		}
		if i > 4_000_000+4*want {
			// far more calls than a reader delivering one byte per call needs
			res.NoProg = true
			break
		}
	}
	if res.Final != nil && res.Final != io.EOF && res.Panic == nil {
		// a caller that keeps reading after an error: still no panic, still bounded
		var pbuf []byte
		for _, l := range c.PostErr {
			if cap(pbuf) < l {
				pbuf = make([]byte, l)
			}
			p := pbuf[:l]
			var n int
			var err error
			c0, e0 := src.Calls, src.Empty
			pn := guard(func() { n, err = rd.Read(p) })
			x.Step("api", 1)
			if d := src.Calls - c0; d > res.MaxSrcCallsPerRead {
				res.MaxSrcCallsPerRead = d
			}
			if d := src.Empty - e0; d > res.MaxEmptyPerRead {
				res.MaxEmptyPerRead = d
			}
			if pn != nil {
				res.Panic = pn
				x.Ev("post-error read(%d) -> panic %s", l, pn.Value)
				break
			}
			x.Ev("post-error read(%d) -> n=%d err=%v", l, n, err)
			if n < 0 || n > l {
				res.BadN = &ReadRes{Len: l, N: n, Err: err}
				break
			}
			res.PostErrReads = append(res.PostErrReads, ReadRes{Len: l, N: n, Err: err})
			res.PostErrOut = append(res.PostErrOut, p[:n]...)
			if err == io.EOF {
				res.PostErrEOF = true
				break
			}
		}
	}
	if res.Final == io.EOF {
		for _, l := range c.PostEOF {
			p := make([]byte, l)
			var n int
			var err error
			pn := guard(func() { n, err = rd.Read(p) })
			x.Step("api", 1)
			if pn != nil {
				res.Panic = pn
				break
			}
			x.Ev("post-eof read(%d) -> n=%d err=%v", l, n, err)
			res.Post = append(res.Post, ReadRes{Len: l, N: n, Err: err})
		}
	}
	x.Step("source", int64(src.Calls))
	return res
}

// genReads draws a Read-length schedule.
func genReads(r *sim.Rng) []int {
	if r.Chance(1, 8) {
		// io.Copy, at once or after a few Reads
		if r.Bool() {
			return []int{-3}
		}
		return []int{sim.Pick(r, []int{1, 7, 273, 4096}), -3}
	}
	switch r.Intn(6) {
	case 0:
		return []int{32768}
	case 1:
		return []int{1}
	case 2:
		return []int{sim.Pick(r, []int{2, 3, 7, 273, 4096, 1 << 20})}
	case 3:
		return []int{-1}
	}
	n := r.Range(2, 8)
	out := make([]int, n)
	for i := range out {
		out[i] = sim.Pick(r, []int{0, 1, 1, 2, 3, 7, 273, 4096, -1, -2, 1 << 20, r.Range(1, 100)})
	}
	// a schedule of only zero-length reads never progresses
	ok := false
	for _, v := range out {
		if v != 0 {
			ok = true
		}
	}
	if !ok {
		out[0] = 5
	}
	return out
}

// genSrcPlan draws a fragmentation plan.
func genSrcPlan(r *sim.Rng) simio.SourcePlan {
	return simio.SourcePlan{
		Frag:        sim.Pick(r, []string{"whole", "whole", "one", "seeded", "seeded"}),
		FragSeed:    r.Uint64(),
		EOFWithData: r.Bool(),
		ByteReader:  r.Chance(1, 4),
		Bufio:       sim.Pick(r, []int{0, 0, 0, 0, 0, 16, 4096}),
	}
}

// genSrcPlanZ is genSrcPlan plus, in a third of the cases, calls that return
// (0, nil): io.Reader allows a Read to report that nothing happened.
func genSrcPlanZ(r *sim.Rng) simio.SourcePlan {
	p := genSrcPlan(r)
	p.Zero = sim.Pick(r, []int{0, 0, 0, 0, 3, 10})
	return p
}

func genPostEOF(r *sim.Rng) []int {
	n := r.Range(1, 4)
	out := make([]int, n)
	for i := range out {
		out[i] = sim.Pick(r, []int{1, 1, 7, 4096, 0})
	}
	return out
}

// checkSequentialModel evaluates a reader history against the sequential model
// of a byte stream with content want: each Read returns the next n bytes with
// nil or io.EOF; io.EOF only once everything has been delivered; after it
// reads into non-empty buffers return (0, io.EOF).
func checkSequentialModel(res *RResult, want []byte, format string) *sim.Violation {
	if res.OpenPanic != nil {
		return sim.Viol("panic", "open:"+panicSite(res.OpenPanic), "opening a valid stream panicked: %s [%s]", res.OpenPanic.Value, res.OpenPanic.Stack)
	}
	if res.OpenErr != nil {
		return sim.Viol("valid-stream-rejected", format+":open", "opening a valid stream failed: %v", res.OpenErr)
	}
	if res.Panic != nil {
		return sim.Viol("panic", "read:"+panicSite(res.Panic), "reading a valid stream panicked: %s [%s]", res.Panic.Value, res.Panic.Stack)
	}
	if res.BadN != nil {
		return sim.Viol("bad-n", format, "Read(len %d) returned n=%d", res.BadN.Len, res.BadN.N)
	}
	if res.NoProg {
		return sim.Viol("no-progress", format, "Read keeps returning (0, nil) for non-empty buffers after %d of %d bytes", len(res.Out), len(want))
	}
	if !isPrefix(res.Out, want) {
		return sim.Viol("wrong-bytes", format, "delivered bytes differ from the reference content at offset %d (delivered %d, content %d)", firstDiff(res.Out, want), len(res.Out), len(want))
	}
	if res.Final != io.EOF {
		return sim.Viol("valid-stream-rejected", format+":read", "reading a valid stream failed after %d of %d bytes: %v", len(res.Out), len(want), res.Final)
	}
	if len(res.Out) != len(want) {
		// find the call that said EOF early
		return sim.Viol("early-eof", format, "io.EOF after %d of %d bytes (last call: Read(len %d) -> n=%d)", len(res.Out), len(want), res.Calls[len(res.Calls)-1].Len, res.Calls[len(res.Calls)-1].N)
	}
	for i, p := range res.Post {
		if p.Len > 0 && (p.N != 0 || p.Err != io.EOF) {
			return sim.Viol("eof-unstable", format, "read %d after EOF (len %d) returned n=%d err=%v", i, p.Len, p.N, p.Err)
		}
		if p.Len == 0 && p.N != 0 {
			return sim.Viol("eof-unstable", format, "zero-length read after EOF returned n=%d", p.N)
		}
	}
	return nil
}

// shrinkRCase proposes simpler reader cases.
func shrinkRCase(c *RCase) []*RCase {
	var out []*RCase
	clone := func() *RCase {
		d := *c
		d.Reads = append([]int(nil), c.Reads...)
		d.PostEOF = append([]int(nil), c.PostEOF...)
		return &d
	}
	if c.Stream.Kind != "literal" {
		b := c.Stream.Build()
		if b.Err == nil && len(b.Stream) <= 1<<16 {
			d := clone()
			d.Stream = b.Literal()
			out = append(out, d)
		}
	}
	if c.Src.Frag != "whole" && c.Src.Frag != "" {
		d := clone()
		d.Src.Frag = "whole"
		out = append(out, d)
		if c.Src.Frag == "seeded" {
			d := clone()
			d.Src.Frag = "one"
			out = append(out, d)
		}
	}
	if c.Src.EOFWithData {
		d := clone()
		d.Src.EOFWithData = false
		out = append(out, d)
	}
	if len(c.Reads) > 1 {
		for i := range c.Reads {
			d := clone()
			d.Reads = append(d.Reads[:i], d.Reads[i+1:]...)
			out = append(out, d)
		}
	}
	if len(c.Reads) != 1 || c.Reads[0] != 32768 {
		d := clone()
		d.Reads = []int{32768}
		out = append(out, d)
	}
	if len(c.PostEOF) > 1 {
		d := clone()
		d.PostEOF = d.PostEOF[:1]
		out = append(out, d)
	}
	if c.RDict != 4096 {
		d := clone()
		d.RDict = 4096
		out = append(out, d)
	}
	return out
}

func describeReads(c *RCase) string { return fmt.Sprint(c.Reads) }

func simioWhole() simio.SourcePlan { return simio.SourcePlan{Frag: "whole"} }
