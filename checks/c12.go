package checks

import (
	"io"
	"time"

	"verif/sim"
	"verif/simio"
)

// tinyStream returns one of a small pool of short valid streams (by index).
func tinyStream(j int) StreamRecipe {
	switch j % 6 {
	case 0: // empty stream, CRC64
		return StreamRecipe{Kind: "lib", W: &WCase{Format: "xz", XZ: &XZCfg{LC: 3, PB: 2, DictCap: 4096, BufSize: 4096},
			Payload: sim.Payload{Kind: "zeros", N: 0}, Ops: []Op{{K: "c"}}}}
	case 1: // short text, CRC32
		return StreamRecipe{Kind: "lib", W: &WCase{Format: "xz", XZ: &XZCfg{LC: 3, PB: 2, DictCap: 4096, BufSize: 4096, CheckSum: 1},
			Payload: sim.Payload{Kind: "text", N: 37, Seed: uint64(j)}, Ops: []Op{{K: "w", N: 37}, {K: "c"}}}}
	case 2: // two blocks, no check
		return StreamRecipe{Kind: "lib", W: &WCase{Format: "xz", XZ: &XZCfg{LC: 0, LP: 2, PB: 0, DictCap: 4096, BufSize: 273, BlockSize: 5, NoCheckSum: true},
			Payload: sim.Payload{Kind: "prng", N: 9, Seed: uint64(j)}, Ops: []Op{{K: "w", N: 9}, {K: "c"}}}}
	case 3: // sha256
		return StreamRecipe{Kind: "lib", W: &WCase{Format: "xz", XZ: &XZCfg{LC: 3, PB: 2, DictCap: 4096, BufSize: 4096, CheckSum: 10},
			Payload: sim.Payload{Kind: "zeros", N: 100}, Ops: []Op{{K: "w", N: 100}, {K: "c"}}}}
	}
	return StreamRecipe{Kind: "refenc-xz", Seed: uint64(1000 + j)}
}

// c12Enum enumerates the padding space for chains of up to three streams.
// Layout of the index space: [0,17) one stream, trailing pad; [17,17+289) two
// streams; then 16 leading pads; then 4913 three-stream chains. Each with
// SingleStream off and on.
const c12EnumN = (17 + 289 + 16 + 4913) * 2

func c12EnumCase(idx int) *RCase {
	single := idx%2 == 1
	k := idx / 2
	c := &RCase{Src: simioWhole(), Reads: []int{32768}, PostEOF: []int{1}, RDict: 4096, Single: single}
	m := StreamRecipe{Kind: "multi"}
	switch {
	case k < 17:
		m.Parts = []StreamRecipe{tinyStream(k)}
		m.Pads = []int{k}
	case k < 17+289:
		k -= 17
		m.Parts = []StreamRecipe{tinyStream(k), tinyStream(k/3 + 1)}
		m.Pads = []int{k / 17, k % 17}
	case k < 17+289+16:
		k -= 17 + 289
		m.LeadPad = k + 1
		m.Parts = []StreamRecipe{tinyStream(k)}
		m.Pads = []int{0}
	default:
		k -= 17 + 289 + 16
		m.Parts = []StreamRecipe{tinyStream(k), tinyStream(k / 5), tinyStream(k/7 + 2)}
		m.Pads = []int{k / 289, (k / 17) % 17, k % 17}
	}
	c.Stream = m
	return c
}

// c12Expect is the executable model of the concatenation law.
type c12Expect struct {
	content []byte // what must be delivered when ok (or the superset whose prefix may be delivered)
	ok      bool   // clean EOF expected
}

func c12Model(c *RCase) (c12Expect, *Built) {
	m := &c.Stream
	var parts [][]byte
	b := m.Build()
	if b.Err == errWriterFailed {
		return c12Expect{}, b // a part the library writer got wrong: left to the writer checks
	}
	if b.Err != nil {
		sim.Infra("cannot build multi stream: %v", b.Err)
	}
	for i := range m.Parts {
		p := m.Parts[i].Build()
		parts = append(parts, p.Content)
	}
	var all []byte
	for _, p := range parts {
		all = append(all, p...)
	}
	if c.Single {
		follows := len(m.Trail) > 0
		for i, pd := range m.Pads {
			if pd > 0 || i < len(m.Parts)-1 {
				follows = true
			}
		}
		if len(m.Parts) > 1 {
			follows = true
		}
		if m.LeadPad > 0 {
			return c12Expect{content: nil, ok: false}, b
		}
		return c12Expect{content: parts[0], ok: !follows}, b
	}
	ok := m.LeadPad == 0 && m.Trail == ""
	for _, pd := range m.Pads {
		if pd%4 != 0 {
			ok = false
		}
	}
	return c12Expect{content: all, ok: ok}, b
}

func runC12(c *RCase, x *sim.Ctx) *sim.Violation {
	if c.Fresh {
		return runFresh("c12case", c, x)
	}
	exp, b := c12Model(c)
	if b.Err == errWriterFailed {
		x.Count("writer-contract-failures(left to C01/C02)", 1)
		return nil
	}
	m := &c.Stream
	x.Shape("n" + itoa(len(m.Parts)))
	if c.Single {
		x.Shape("single")
		x.Probe("single-stream")
	}
	if m.LeadPad > 0 {
		x.Probe("leading-padding")
	}
	if m.Trail != "" {
		x.Probe("trailing-garbage")
	}
	for _, pd := range m.Pads {
		if pd%4 != 0 {
			x.Probe("misaligned-padding")
		} else if pd > 0 {
			x.Probe("aligned-padding")
		}
	}
	x.Nontrivial(1)
	rc := *c
	if !exp.ok {
		rc.PostErr = c04PostErr // where an error is due, the caller reads on after it
	}
	res := runReader("xz", b.Stream, len(exp.content), &rc, 0, x)
	if !exp.ok && res.PostErrEOF {
		return sim.Viol("illegal-layout-accepted", "after-error", "Read reported %q, later reads went on to a clean end of stream for lead=%d pads=%v trail=%q single=%v", res.Final.Error(), c.Stream.LeadPad, c.Stream.Pads, c.Stream.Trail, c.Single)
	}
	if exp.ok {
		return checkSequentialModel(res, exp.content, "xz-multi")
	}
	// an error is due: from open or from some Read, never a clean EOF
	if res.OpenPanic != nil {
		return sim.Viol("panic", "open:"+panicSite(res.OpenPanic), "%s", res.OpenPanic.Value)
	}
	if res.Panic != nil {
		return sim.Viol("panic", "read:"+panicSite(res.Panic), "%s", res.Panic.Value)
	}
	if res.OpenErr != nil {
		return nil
	}
	if res.BadN != nil {
		return sim.Viol("bad-n", "xz-multi", "Read(len %d) returned n=%d", res.BadN.Len, res.BadN.N)
	}
	if !isPrefix(res.Out, exp.content) {
		return sim.Viol("wrong-bytes", "xz-multi", "delivered bytes are not a prefix of the expected content (diff at %d)", firstDiff(res.Out, exp.content))
	}
	site := "padding"
	switch {
	case c.Single:
		site = "single-stream"
	case m.LeadPad > 0:
		site = "leading-padding"
	case m.Trail != "":
		site = "trailing-garbage"
	}
	if res.Final == io.EOF {
		return sim.Viol("illegal-layout-accepted", site, "clean EOF after %d bytes for lead=%d pads=%v trail=%q single=%v", len(res.Out), m.LeadPad, m.Pads, m.Trail, c.Single)
	}
	if res.Final == nil {
		return sim.Viol("no-progress", "xz-multi", "reader neither fails nor ends")
	}
	return nil
}

func init() {
	registerFresh("c12case", runC12)
	sim.Register(sim.Spec[RCase]{
		Property:  "C12",
		Engine:    "rsim",
		Level:     "exploration",
		Technique: "deterministic simulation of an append-only file of several writer sessions with stream padding: exhaustive padding enumeration 0..16 for chains of <=3 streams, seeded longer chains, trailing garbage, SingleStream, under source fragmentation and Read schedules; executable model of the concatenation law as oracle",
		Rule: "first 10470 indices enumerate all padding lengths 0..16 between/after (and 1..16 before) chains of 1-3 short streams x SingleStream on/off; further indices draw chains of 1-5 streams (library- and refenc-written, empty ones, mixed checks) with seeded paddings, trailing non-zero bytes, fragmentation and Read schedules; " +
			"non-trivial = every case; distinct = distinct scenario digests",
		Gen: func(r *sim.Rng, tier string, idx int) *RCase {
			if idx < c12EnumN {
				return c12EnumCase(idx)
			}
			if (tier == "quick" && idx == c12EnumN+333) || (tier == "thorough" && idx%200000 == 4444) {
				// tens of MiB of stream padding in one piece, between two streams or
				// after the last: legal, and read four bytes at a time. In a process
				// of its own: a reader that recurses per padding word dies of a stack
				// overflow, which no recover() catches.
				c := &RCase{Src: simio.SourcePlan{Frag: "whole"}, Reads: []int{1 << 16}, PostEOF: []int{1}, RDict: 4096, Fresh: true}
				pad := 4 * r.Range(10<<20, 14<<20)
				c.Stream = StreamRecipe{Kind: "multi", Parts: []StreamRecipe{tinyStream(1), tinyStream(3)}, Pads: []int{pad, 0}}
				if r.Bool() {
					c.Stream.Pads = []int{0, pad}
				}
				return c
			}
			c := &RCase{Src: genSrcPlanZ(r), Reads: genReads(r), PostEOF: genPostEOF(r), RDict: 4096, Single: r.Chance(1, 3)}
			m := genMulti(r, tier, true)
			if r.Chance(1, 6) {
				m.Parts = append(m.Parts, tinyStream(r.Intn(100)))
				m.Pads = append(m.Pads, 0)
			}
			if !c.Single && r.Chance(1, 80) {
				// 70-300 streams without content in a row, somewhere in the chain
				// (one part of the recipe, many streams: not for SingleStream cases,
				// whose model takes a part for a stream)
				at := r.Intn(len(m.Parts) + 1)
				m.Parts = append(m.Parts[:at], append([]StreamRecipe{{Kind: "refenc-empties", Seed: r.Uint64()}}, m.Parts[at:]...)...)
				m.Pads = append(m.Pads[:at], append([]int{4 * r.Intn(3)}, m.Pads[at:]...)...)
			}
			if r.Chance(1, 3) {
				for i := range m.Pads {
					if r.Chance(1, 2) {
						m.Pads[i] = r.Range(0, 16)
					}
				}
			}
			if r.Chance(1, 8) {
				m.LeadPad = r.Range(1, 16)
			}
			if r.Chance(1, 8) {
				m.Trail = sim.Pick(r, []string{"01", "00000001", "ff", "fd377a585a00", "0000000000000001", "595a"})
			}
			c.Stream = m
			return c
		},
		Run:    runC12,
		Shrink: shrinkC12,
		Runs: func(tier string) int {
			if tier == "thorough" {
				return 1200000
			}
			return c12EnumN + 40000
		},
		Budget: func(tier string) time.Duration {
			if tier == "thorough" {
				return 15 * time.Minute
			}
			return 45 * time.Second
		},
		RunDeadline: 60 * time.Second,
		Exhaustive:  []string{"padding lengths 0..16 between and after chains of 1, 2 and 3 short streams, 1..16 before the first stream, each with SingleStream off and on"},
		Assumptions: []string{
			"with SingleStream, stream padding after the first stream counts as 'a byte follows it' (the property says 'if even one byte follows')",
			"where an error is due, bytes delivered before it need only be a prefix of the concatenation",
		},
		Components: components,
	})
}

func shrinkC12(c *RCase) []*RCase {
	var out []*RCase
	m := c.Stream
	if len(m.Parts) > 1 {
		for i := range m.Parts {
			d := *c
			dm := m
			dm.Parts = append(append([]StreamRecipe{}, m.Parts[:i]...), m.Parts[i+1:]...)
			dm.Pads = append(append([]int{}, m.Pads[:i]...), m.Pads[i+1:]...)
			d.Stream = dm
			out = append(out, &d)
		}
	}
	for i := range m.Pads {
		if m.Pads[i] >= 4 {
			d := *c
			dm := m
			dm.Pads = append([]int{}, m.Pads...)
			dm.Pads[i] -= 4
			d.Stream = dm
			out = append(out, &d)
		}
	}
	for _, s := range shrinkRCase(c) {
		if s.Stream.Kind == "multi" {
			out = append(out, s)
		}
	}
	return out
}
