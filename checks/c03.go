package checks

import (
	"time"

	"verif/ref/liblzma"
	"verif/sim"
)

// genXZStreamRecipe draws a valid .xz stream from the foreign peers (and,
// as the dull case, from the library's own writer).
func genXZStreamRecipe(r *sim.Rng, tier string, libShare int) StreamRecipe {
	k := r.Weighted([]int{60, 25, 5, libShare})
	if k == 1 && !liblzma.Available {
		k = 0
	}
	switch k {
	case 0:
		return StreamRecipe{Kind: "refenc-xz", Seed: r.Uint64(), Big: r.Chance(1, 300)}
	case 1:
		max := 5000
		if r.Chance(1, 10) {
			max = 300000
		}
		pl := sim.GenPayload(r, max)
		return StreamRecipe{Kind: "liblzma-xz", Payload: &pl, Enc: genLiblzmaOpts(r, false)}
	case 2:
		files := corpusFiles("xz")
		if len(files) == 0 {
			return StreamRecipe{Kind: "refenc-xz", Seed: r.Uint64()}
		}
		return StreamRecipe{Kind: "corpus", File: sim.Pick(r, files)}
	}
	w := genXZWCase(r, "src", 0, false)
	return StreamRecipe{Kind: "lib", W: w}
}

func init() {
	sim.Register(sim.Spec[RCase]{
		Property:  "C03",
		Engine:    "rsim",
		Level:     "exploration",
		Technique: "deterministic simulation: the xz reader is fed by a simulated foreign peer (specification-driven stream generator, liblzma encoder, frozen xz-utils corpus) behind a fragmenting source, with seeded Read schedules and reader DictCap; three-way oracle generator content == reference decoder == library output",
		Rule: "case = (valid LZMA2-only .xz stream from refenc / liblzma / corpus / library writer, source fragmentation plan, Read-length schedule, ReaderConfig.DictCap); each case is read with its DictCap and with DictCap 4096; " +
			"non-trivial = non-empty content; distinct = distinct scenario digests",
		Gen: func(r *sim.Rng, tier string, idx int) *RCase {
			c := &RCase{Stream: genXZStreamRecipe(r, tier, 10), Src: genSrcPlanZ(r), Reads: genReads(r), PostEOF: genPostEOF(r)}
			c.RDict = sim.Pick(r, []int{4096, 8192, 1 << 16, 1 << 20, 1 << 22})
			if r.Chance(1, 50) {
				c.RDict = 0
			}
			if idx == 4242 || (tier == "thorough" && idx%100000 == 4242) {
				// the largest declarable dictionary (the reader sizes its window from it:
				// 4 GiB of address space, untouched), once per batch
				c.Stream = StreamRecipe{Kind: "refenc-xz-maxdict", Seed: r.Uint64()}
				c.Reads, c.RDict = []int{4096}, 4096
			}
			if r.Chance(1, 2500) {
				// more than 8 MiB of content with matches reaching beyond the reader's default window
				c.Stream = StreamRecipe{Kind: "refenc-far-xz", Seed: r.Uint64()}
				c.Reads = []int{sim.Pick(r, []int{4096, 32768, 1 << 20, 100000})}
			}
			return c
		},
		Run: func(c *RCase, x *sim.Ctx) *sim.Violation {
			if v := runForeignStream(c, x); v != nil {
				return v
			}
			if c.RDict != 4096 {
				d := *c
				d.RDict = 4096
				x.Eval(2)
				if v := runForeignStream(&d, sim.NewCtx(false)); v != nil {
					v.Detail = "with ReaderConfig.DictCap 4096: " + v.Detail
					v.Site += ":dictcap"
					return v
				}
			}
			return nil
		},
		Shrink: shrinkRCase,
		Runs: func(tier string) int {
			if tier == "thorough" {
				return 800000
			}
			return 40000
		},
		Budget: func(tier string) time.Duration {
			if tier == "thorough" {
				return 20 * time.Minute
			}
			return 45 * time.Second
		},
		RunDeadline: 60 * time.Second,
		Assumptions: []string{
			"validity of a stream = accepted by verif/ref/refxz with the generator's content (checked per case; a disagreement is exit 2, not a violation); refxz, refenc and liblzma agree on the generated language (verif/ref tests)",
			"the stream space itself is generated, not enumerated; the simulator owns fragmentation, Read schedule and reader DictCap",
		},
		Components: components,
	})

	sim.Register(sim.Spec[RCase]{
		Property:  "C13",
		Engine:    "rsim",
		Level:     "exploration",
		Technique: "deterministic simulation of reader schedules: seeded Read-length schedules (incl. 0 and 1) x source fragmentation (1 byte, short reads, EOF with data) x post-EOF reads, checked against a sequential byte-stream model, for the xz, LZMA and LZMA2 readers",
		Rule: "case = (valid stream of one of three formats incl. multi-block / multi-chunk / multi-stream, fragmentation plan, Read-length schedule from {0,1,2,3,7,273,4096,remaining,remaining+1,1MiB,...}, reads after EOF); " +
			"non-trivial = non-empty content; distinct = distinct scenario digests",
		Gen: func(r *sim.Rng, tier string, idx int) *RCase {
			c := &RCase{Src: genSrcPlanZ(r), Reads: genReads(r), PostEOF: genPostEOF(r)}
			if r.Chance(3, 4) {
				// bias to interesting schedules
				c.Reads = genReads(r)
				for len(c.Reads) == 1 && c.Reads[0] == 32768 {
					c.Reads = genReads(r)
				}
			}
			c.RDict = sim.Pick(r, []int{4096, 8192, 1 << 16})
			switch r.Weighted([]int{4, 3, 3, 2}) {
			case 0:
				c.Stream = genXZStreamRecipe(r, tier, 40)
			case 1:
				if r.Bool() {
					c.Stream = StreamRecipe{Kind: "refenc-alone", Seed: r.Uint64(), Big: r.Chance(1, 20)}
				} else {
					w := genLZWCase(r, "src", false, false)
					c.Stream = StreamRecipe{Kind: "lib", W: &w.W}
				}
			case 2:
				if r.Bool() {
					c.Stream = StreamRecipe{Kind: "refenc-l2", Seed: r.Uint64(), Big: r.Chance(1, 100)}
					c.RDict = 1 << 20
					if r.Bool() {
						c.RDict = -1 // exactly what the stream needs
					}
				} else {
					w := genL2WCase(r, "src", false)
					c.Stream = StreamRecipe{Kind: "lib", W: w}
					c.RDict = w.L2.EffDictCap()
				}
			default:
				c.Stream = genMulti(r, tier, true)
			}
			if r.Chance(1, 3000) {
				k := sim.Pick(r, []string{"refenc-far-xz", "refenc-far-alone", "refenc-far-l2"})
				c.Stream = StreamRecipe{Kind: k, Seed: r.Uint64()}
				c.RDict = sim.Pick(r, []int{4096, 1 << 16})
				if k == "refenc-far-l2" {
					c.RDict = 32 << 20 // a raw LZMA2 stream does not declare its dictionary size
				}
				for i := range c.Reads {
					if c.Reads[i] < 273 {
						c.Reads[i] += 4096 // keep the number of Read calls over 9 MB moderate
					}
				}
			}
			return c
		},
		Run: func(c *RCase, x *sim.Ctx) *sim.Violation {
			for _, l := range c.Reads {
				if l == 0 {
					x.Probe("read-len-0")
				}
				if l == 1 {
					x.Probe("read-len-1")
				}
			}
			if c.Src.EOFWithData {
				x.Probe("eof-delivered-with-data")
			}
			if c.Src.Frag == "one" {
				x.Probe("source-1-byte-fragments")
			}
			return runForeignStream(c, x)
		},
		Shrink: shrinkRCase,
		Runs: func(tier string) int {
			if tier == "thorough" {
				return 1500000
			}
			return 60000
		},
		Budget: func(tier string) time.Duration {
			if tier == "thorough" {
				return 20 * time.Minute
			}
			return 45 * time.Second
		},
		RunDeadline:      60 * time.Second,
		StallIsViolation: true,
		Assumptions: []string{
			"a zero-length Read may return (0, nil) at any time and (0, io.EOF) only once all content was delivered",
			"the source never returns (0, nil) for a non-empty buffer (C13 lists the fragmentations it covers; that one is not among them)",
		},
		Components: components,
	})
}

// genMulti draws a concatenation of xz streams; valid = only legal paddings.
func genMulti(r *sim.Rng, tier string, valid bool) StreamRecipe {
	n := r.Range(1, 4)
	m := StreamRecipe{Kind: "multi"}
	for i := 0; i < n; i++ {
		var p StreamRecipe
		switch r.Intn(4) {
		case 0:
			w := genXZWCase(r, "src", 0, false)
			max := 600
			if w.XZ.BlockSize > 0 && int64(max) > 12*w.XZ.BlockSize {
				max = int(12 * w.XZ.BlockSize)
			}
			w.Payload = sim.GenPayload(r, max)
			w.Ops = []Op{{K: "w", N: w.Payload.Len()}, {K: "c"}}
			p = StreamRecipe{Kind: "lib", W: w}
		case 1:
			// empty stream written by the library
			w := genXZWCase(r, "src", 0, false)
			w.Payload = sim.Payload{Kind: "zeros", N: 0}
			w.Ops = []Op{{K: "c"}}
			p = StreamRecipe{Kind: "lib", W: w}
		default:
			p = StreamRecipe{Kind: "refenc-xz", Seed: r.Uint64()}
		}
		m.Parts = append(m.Parts, p)
		pad := 4 * r.Weighted([]int{4, 3, 2, 1, 1})
		m.Pads = append(m.Pads, pad)
	}
	return m
}
