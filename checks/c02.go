package checks

import (
	"bytes"
	"errors"
	"fmt"
	"time"

	"verif/ref/liblzma"
	"verif/ref/reflzma"
	"verif/ref/refxz"
	"verif/sim"
)

// smallestDictByte returns the smallest dictionary size code whose size is at
// least n, from the format definition (size = (2|b&1) << (b/2+11), 40 = 4 GiB-1).
func smallestDictByte(n int64) byte {
	for b := 0; b <= 40; b++ {
		s, _ := reflzma.DictSizeFromByte(byte(b))
		if s >= n {
			return byte(b)
		}
	}
	return 40
}

// validateXZ judges a sink image produced by the xz writer against the
// independent definition of the format. want is the model byte log.
func validateXZ(cfg *XZCfg, img, want []byte, x *sim.Ctx) *sim.Violation {
	f, err := refxz.Parse(img, false)
	var lib []byte
	var liberr error
	if liblzma.Available {
		lib, liberr = liblzma.DecodeXZ(img)
	}
	if err != nil {
		if liblzma.Available && liberr == nil && bytes.Equal(lib, want) {
			sim.Infra("oracle disagreement: refxz rejects (%v) what liblzma decodes correctly; cfg=%+v len(img)=%d", err, *cfg, len(img))
		}
		site := "structure"
		if errors.Is(err, refxz.ErrTruncated) {
			site = "truncated"
		}
		return sim.Viol("invalid-xz", site, "reference parser rejects the writer's output: %v", err)
	}
	if d := firstDiff(f.Content, want); d >= 0 {
		return sim.Viol("foreign-decode-mismatch", "refxz", "reference decoder yields %d bytes, written %d; first difference at %d", len(f.Content), len(want), d)
	}
	if len(f.Streams) != 1 || f.Streams[0].PaddingAfter != 0 {
		return sim.Viol("invalid-xz", "stream-count", "writer emitted %d streams / %d padding bytes", len(f.Streams), f.Streams[0].PaddingAfter)
	}
	st := f.Streams[0]
	if st.CheckID != cfg.EffCheck() {
		return sim.Viol("invalid-xz", "check-id", "stream declares check %#x, configured %#x", st.CheckID, cfg.EffCheck())
	}
	wantDict := smallestDictByte(int64(cfg.EffDictCap()))
	bs := cfg.BlockSize
	for i, b := range st.Blocks {
		if b.DictByte != wantDict {
			return sim.Viol("dict-size-code", "block-header", "block %d declares dictionary code %d (size %d); smallest code covering DictCap %d is %d", i, b.DictByte, b.DictSize, cfg.EffDictCap(), wantDict)
		}
		if bs > 0 {
			if i < len(st.Blocks)-1 && int64(b.UncompSize) != bs {
				return sim.Viol("block-size", "non-last-block", "block %d of %d carries %d bytes, BlockSize is %d", i, len(st.Blocks), b.UncompSize, bs)
			}
			if int64(b.UncompSize) > bs {
				return sim.Viol("block-size", "last-block", "block %d carries %d bytes, BlockSize is %d", i, b.UncompSize, bs)
			}
		}
		for _, ch := range b.Chunks {
			x.Count("chunks."+ch.Kind, 1)
		}
		if b.Trace.DistAtWindowEdge > 0 {
			x.Probe("match-at-window-edge")
		}
		if b.Trace.ShortReps > 0 {
			x.Probe("short-rep")
		}
		for k := 1; k < 4; k++ {
			if b.Trace.Reps[k] > 0 {
				x.Probe(fmt.Sprintf("rep%d", k))
			}
		}
		if b.UncompSize == 0 {
			x.Probe("empty-block")
		}
		for j, ch := range b.Chunks {
			if (ch.Kind == "U" || ch.Kind == "UD") && j > 0 && b.Chunks[j-1].Kind[0] == 'L' {
				x.Probe("raw-after-lzma-chunk")
			}
			if ch.Kind[0] == 'L' && j > 0 && (b.Chunks[j-1].Kind == "U" || b.Chunks[j-1].Kind == "UD") {
				x.Probe("lzma-after-raw-chunk")
			}
			if ch.Kind[0] == 'L' && ch.Compressed > 65000 {
				x.Probe("compressed-limit-reached")
			}
			if ch.Uncompressed >= 1<<21 {
				x.Probe("uncompressed-limit-reached")
			}
		}
	}
	if len(st.Blocks) > 1 {
		x.Probe("multi-block")
	}
	if liblzma.Available {
		if liberr != nil {
			return sim.Viol("liblzma-rejects", "oracle=liblzma", "liblzma rejects a stream the reference parser accepts: %v", liberr)
		}
		if d := firstDiff(lib, want); d >= 0 {
			return sim.Viol("foreign-decode-mismatch", "oracle=liblzma", "liblzma yields %d bytes, written %d; first difference at %d", len(lib), len(want), d)
		}
	}
	return nil
}

func init() {
	sim.Register(sim.Spec[WCase]{
		Property:  "C02",
		Engine:    "wsim",
		Level:     "exploration",
		Technique: "deterministic simulation of xz writer call histories; every recorded sink history is judged by an independent executable model of the .xz/LZMA2 format (own parser+decoder) and by liblzma",
		Rule: "case = (WriterConfig, payload recipe, Write partition, Close); every emitted image is parsed and decoded by refxz/reflzma (and liblzma when linked): structure, CRCs, sizes, index, backward size, padding, checks, " +
			"declared dictionary >= every distance and == smallest code >= DictCap, exact BlockSize for non-last blocks; non-trivial = non-empty payload; distinct = distinct scenario digests",
		Gen: func(r *sim.Rng, tier string, idx int) *WCase {
			c := genXZWCase(r, tier, idx, false)
			if isVeryFarCase(tier, idx) {
				// one match 16-40 MiB back in a 32/64 MiB dictionary (as in C01):
				// the distance coding for the largest slots, judged by the
				// reference decoder
				pl, dc := veryFarPayload(r, idx)
				c.XZ.DictCap, c.XZ.Matcher, c.XZ.BlockSize, c.XZ.BufSize = dc, 0, 0, 4096
				c.Payload, c.RDict = pl, 0
				c.Ops = []Op{{K: "w", N: pl.Len()}, {K: "c"}}
			}
			wildConfig(r, c)
			return c
		},
		Run: func(c *WCase, x *sim.Ctx) *sim.Violation {
			res := runWriter(c, x)
			if refusedWild(c, res, x) {
				return nil
			}
			probeWCase(c, res, x)
			if len(res.Log) > 0 {
				x.Nontrivial(1)
			}
			if v := checkContract(c, res, false); v != nil {
				// the writer refusing valid input is C01's business; C02 judges emitted streams
				if v.Class == "panic" {
					return v
				}
				x.Count("writer-contract-failures(left to C01)", 1)
				return nil
			}
			return validateXZ(c.XZ, res.Sink.Image, res.Log, x)
		},
		Shrink: shrinkWCase,
		Runs: func(tier string) int {
			if tier == "thorough" {
				return 1000000
			}
			return 40000
		},
		Budget: func(tier string) time.Duration {
			if tier == "thorough" {
				return 20 * time.Minute
			}
			return 45 * time.Second
		},
		RunDeadline: 60 * time.Second,
		Assumptions: []string{
			"the format definition is the one encoded in verif/ref/refxz and verif/ref/reflzma (written from xz-file-format-1.0.4 and the LZMA specification) and liblzma 5.4.1 when it links; the three agree on 7.8k generated streams in verif/ref tests",
			"there is no fault dimension in C02: validity is judged on fault-free histories here and on every all-calls-returned-nil history inside C09",
		},
		Components: components,
	})
}
