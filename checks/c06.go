package checks

import (
	"bytes"
	"time"

	"verif/ref/liblzma"
	"verif/ref/reflzma"
	"verif/sim"
)

// LZCase is a classic-LZMA writer scenario with the explicit-size contract.
type LZCase struct {
	W WCase `json:"w"`
	// SizeMode: "" (no explicit size) | exact | surplus | deficit
	SizeMode string `json:"size_mode,omitempty"`
}

// genLZWCase draws a classic LZMA writer case. interop restricts lc+lp<=4.
func genLZWCase(r *sim.Rng, tier string, interop bool, contract bool) *LZCase {
	want := 4096
	big := false
	switch {
	case tier == "thorough" && r.Chance(1, 500):
		want = r.Range(1<<20, 3<<20)
		big = true
	case r.Chance(1, 12):
		want = 300 << 10
		big = r.Chance(1, 4)
	case r.Chance(1, 5):
		want = 70 << 10
	}
	pre := GenLZCfg(r, 0, big, interop)
	max := maxPayloadFor(pre.Matcher, 0, pre.DictCap, want)
	pl := sim.GenPayload(r, max)
	if pre.DictCap != 0 && pre.DictCap <= 1<<16 && r.Chance(1, 7) && (pre.Matcher == 0 || pre.DictCap <= 8192) {
		pl = dictAwarePayload(r, pre.DictCap, pre.BufSize)
	}
	n := pl.Len()
	cfg := pre
	if cfg.HasSize() || cfg.SizeInHeader {
		cfg.Size = int64(n)
		if n == 0 {
			cfg.SizeInHeader = true
		}
	}
	c := &LZCase{}
	if cfg.HasSize() {
		c.SizeMode = "exact"
		if contract && n > 0 && r.Chance(1, 4) {
			if r.Bool() {
				c.SizeMode = "surplus"
				cfg.Size = int64(r.Range(0, n-1))
				cfg.SizeInHeader = true
			} else {
				c.SizeMode = "deficit"
				cfg.Size = int64(n + r.Range(1, 50))
			}
		} else if contract && n == 0 && r.Chance(1, 4) {
			c.SizeMode = "deficit"
			cfg.Size = int64(r.Range(1, 50))
		}
	}
	// (a third of the histories go on after Close: a second Close - what a
	// deferred Close after an explicit one amounts to -, further writes)
	c.W = WCase{Format: "lzma", LZ: &cfg, Payload: pl, Ops: genHistory(r, n, false, []int{int(cfg.Size), 65536}, c.SizeMode != "deficit" && r.Chance(1, 3))}
	c.W.RDict = sim.Pick(r, []int{4096, 4096, 8192, 1 << 16})
	c.W.Sink.ByteWriter = r.Bool()
	return c
}

// checkLZHeader re-parses the 13 header bytes and compares them with the
// configuration: properties code, dictionary size, size or all-ones.
func checkLZHeader(cfg *LZCfg, img []byte) *sim.Violation {
	if len(img) < 13 {
		return sim.Viol("lzma-header", "short", "output has only %d bytes", len(img))
	}
	h, err := reflzma.ParseAloneHeader(img)
	if err != nil {
		return sim.Viol("lzma-header", "unparseable", "%v", err)
	}
	lc, lp, pb := cfg.EffProps()
	if h.Props.LC != lc || h.Props.LP != lp || h.Props.PB != pb {
		return sim.Viol("lzma-header", "properties", "header says lc=%d lp=%d pb=%d, configured %d/%d/%d", h.Props.LC, h.Props.LP, h.Props.PB, lc, lp, pb)
	}
	if int64(h.DictSize) != int64(cfg.EffDictCap()) {
		return sim.Viol("lzma-header", "dict-size", "header says dictionary %d, configured %d", h.DictSize, cfg.EffDictCap())
	}
	if cfg.HasSize() {
		if h.Size != cfg.Size {
			return sim.Viol("lzma-header", "size", "explicit size %d configured, header says %d", cfg.Size, h.Size)
		}
	} else if h.Size != -1 {
		return sim.Viol("lzma-header", "size", "no size configured, header says %d", h.Size)
	}
	return nil
}

// checkLZContract monitors the size contract of the classic writer.
func checkLZContract(c *LZCase, res *WResult) *sim.Violation {
	w := &c.W
	if res.NewPanic != nil {
		return sim.Viol("panic", "new:"+panicSite(res.NewPanic), "constructor panicked: %s", res.NewPanic.Value)
	}
	if res.NewErr != nil {
		return sim.Viol("new-error", "lzma", "constructor failed on a valid configuration: %v", res.NewErr)
	}
	remaining := int64(-1)
	if w.LZ.HasSize() {
		remaining = w.LZ.Size
	}
	for i, cr := range res.Calls {
		if cr.Panic != nil {
			return sim.Viol("panic", cr.Op.K+":"+panicSite(cr.Panic), "call %d %s panicked: %s [%s]", i, cr.Op.K, cr.Panic.Value, cr.Panic.Stack)
		}
		if res.CloseIdx >= 0 && i > res.CloseIdx {
			// calls after the Close that finished the stream: what they return is
			// not constrained for this writer; that they leave the finished stream
			// alone is judged on the sink image below
			continue
		}
		switch cr.Op.K {
		case "w":
			if remaining < 0 || int64(cr.Want) <= remaining {
				if cr.Err != nil || cr.N != cr.Want {
					return sim.Viol("write-error", "lzma", "call %d Write(%d bytes) returned n=%d err=%v", i, cr.Want, cr.N, cr.Err)
				}
				if remaining >= 0 {
					remaining -= int64(cr.N)
				}
			} else {
				// surplus: must accept exactly the remaining bytes and fail
				if cr.Err == nil {
					return sim.Viol("surplus-accepted", "lzma", "call %d Write(%d bytes) with only %d bytes of declared size left returned nil error (n=%d)", i, cr.Want, remaining, cr.N)
				}
				if int64(cr.N) != remaining {
					return sim.Viol("surplus-accepted", "lzma:n", "call %d Write(%d bytes) with %d bytes left returned n=%d", i, cr.Want, remaining, cr.N)
				}
				remaining = 0
			}
		case "c":
			if i != res.CloseIdx {
				continue
			}
			if remaining > 0 {
				if cr.Err == nil {
					return sim.Viol("deficit-accepted", "lzma", "Close succeeded with %d bytes of the declared size missing", remaining)
				}
			} else if cr.Err != nil {
				return sim.Viol("close-error", "lzma", "Close returned %v", cr.Err)
			}
		}
	}
	return nil
}

func runLZCase(c *LZCase, x *sim.Ctx, foreign bool) *sim.Violation {
	res := runWriter(&c.W, x)
	if refusedWild(&c.W, res, x) {
		return nil
	}
	probeWCase(&c.W, res, x)
	x.Shape("size:" + c.SizeMode)
	if c.SizeMode != "" {
		x.Probe("size-" + c.SizeMode)
	}
	if c.W.LZ.HasMarker() {
		x.Probe("eos-marker")
	}
	if len(res.Log) > 0 || c.SizeMode != "" {
		x.Nontrivial(1)
	}
	if v := checkLZContract(c, res); v != nil {
		if foreign && v.Class != "panic" {
			x.Count("writer-contract-failures(left to C06)", 1)
			return nil
		}
		return v
	}
	img := res.Sink.Image
	if ci := res.CloseIdx; ci >= 0 && res.Calls[ci].Err == nil && res.Calls[ci].ImgAfter != len(img) {
		// the stream was finished by that Close; nothing may be added behind it
		// (a deferred second Close, a late Write): the file would no longer be a
		// .lzma file
		return sim.Viol("after-close-emits", "lzma", "the Close that finished the stream left %d bytes in the sink, the calls after it added %d more", res.Calls[ci].ImgAfter, len(img)-res.Calls[ci].ImgAfter)
	}
	if c.SizeMode == "deficit" {
		// Close failed as it must; whatever reached the sink is not a stream
		// (the header may still sit in the writer's buffer).
		if len(img) >= 13 {
			return checkLZHeader(c.W.LZ, img)
		}
		return nil
	}
	if v := checkLZHeader(c.W.LZ, img); v != nil {
		return v
	}
	// the termination mode that was configured: an end marker iff EOSMarker is
	// set or no size is stated (the header cannot say so; the stream must)
	if rr, rerr := reflzma.DecodeAlone(img, false); rerr == nil && rr.EOS != c.W.LZ.HasMarker() {
		return sim.Viol("lzma-termination", "marker", "configured end marker=%v (EOSMarker=%v, size in header=%v), the stream ends with a marker: %v", c.W.LZ.HasMarker(), c.W.LZ.EOSMarker, c.W.LZ.HasSize(), rr.EOS)
	}
	if !foreign {
		return decodeWithLibrary("lzma", img, res.Log, c.W.RDict)
	}
	// C07 writer side: reference decoder and liblzma
	ref, err := reflzma.DecodeAlone(img, false)
	var lib []byte
	var liberr error
	if liblzma.Available {
		lib, _, liberr = liblzma.DecodeAlone(img)
	}
	if err != nil {
		if liblzma.Available && liberr == nil && bytes.Equal(lib, res.Log) {
			sim.Infra("oracle disagreement: reflzma rejects (%v) what liblzma decodes correctly; cfg=%+v", err, *c.W.LZ)
		}
		return sim.Viol("foreign-reject", "reflzma", "reference decoder rejects the writer's output: %v", err)
	}
	if d := firstDiff(ref.Out, res.Log); d >= 0 {
		return sim.Viol("foreign-decode-mismatch", "reflzma", "reference decoder yields %d bytes, written %d, first difference %d", len(ref.Out), len(res.Log), d)
	}
	if !c.W.LZ.HasSize() && !ref.EOS {
		return sim.Viol("lzma-header", "marker-mode", "header declares unknown size but no end marker terminates the stream")
	}
	if ref.Trace.MaxDist > int64(ref.Header.DictSize) && ref.Trace.MaxDist > 4096 {
		return sim.Viol("lzma-header", "dict-covers-distances", "distance %d exceeds header dictionary %d", ref.Trace.MaxDist, ref.Header.DictSize)
	}
	if liblzma.Available {
		if liberr != nil {
			return sim.Viol("foreign-reject", "oracle=liblzma", "liblzma rejects the writer's output: %v", liberr)
		}
		if d := firstDiff(lib, res.Log); d >= 0 {
			return sim.Viol("foreign-decode-mismatch", "oracle=liblzma", "liblzma yields %d bytes, written %d, first difference %d", len(lib), len(res.Log), d)
		}
	}
	return nil
}

func shrinkLZCase(c *LZCase) []*LZCase {
	var out []*LZCase
	for _, w := range shrinkWCase(&c.W) {
		d := &LZCase{W: *w, SizeMode: c.SizeMode}
		// keep the size relation meaningful
		n := int64(d.W.Payload.Len())
		switch c.SizeMode {
		case "exact":
			if d.W.LZ.Size != n {
				d.W.LZ.Size = n
				d.W.LZ.SizeInHeader = true
			}
		case "surplus":
			if d.W.LZ.Size >= n {
				continue
			}
		case "deficit":
			if d.W.LZ.Size <= n {
				continue
			}
		}
		out = append(out, d)
	}
	return out
}

func init() {
	sim.Register(sim.Spec[LZCase]{
		Property:  "C06",
		Engine:    "wsim",
		Level:     "exploration",
		Technique: "deterministic simulation of classic-LZMA writer call histories incl. the explicit-size contract (surplus / deficit), header re-parsed independently, library reader over the recorded sink history as oracle",
		Rule: "case = (lzma.WriterConfig over all 225 property codes, DictCap/BufSize corners, both matchers, {marker, size, size+marker}, Size=len incl. 0 | surplus | deficit; payload; Write partition; sink with/without io.ByteWriter); " +
			"non-trivial = non-empty payload or an explicit-size mode; distinct = distinct scenario digests",
		Gen: func(r *sim.Rng, tier string, idx int) *LZCase {
			c := genLZWCase(r, tier, false, true)
			if !isVeryFarCase(tier, idx) && (c.SizeMode == "" || c.SizeMode == "exact") {
				wildConfig(r, &c.W)
			}
			if isVeryFarCase(tier, idx) {
				pl, dc := veryFarPayload(r, idx)
				c.SizeMode = ""
				c.W.LZ = &LZCfg{NoProps: true, DictCap: dc, BufSize: 4096, EOSMarker: true}
				c.W.Payload, c.W.RDict = pl, 0
				c.W.Ops = []Op{{K: "w", N: pl.Len()}, {K: "c"}}
			}
			return c
		},
		Run:    func(c *LZCase, x *sim.Ctx) *sim.Violation { return runLZCase(c, x, false) },
		Shrink: shrinkLZCase,
		Runs: func(tier string) int {
			if tier == "thorough" {
				return 1500000
			}
			return 100000
		},
		Budget: func(tier string) time.Duration {
			if tier == "thorough" {
				return 20 * time.Minute
			}
			return 45 * time.Second
		},
		RunDeadline:      60 * time.Second,
		StallIsViolation: true,
		Assumptions: []string{
			"calls after Close are not constrained for this writer (the property does not mention them)",
			"decoding uses the library's own lzma.Reader; foreign decoders are C07",
		},
		Components: components,
	})
}
