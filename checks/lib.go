// Package checks holds one simulation check per property (C01..C16) and the
// adapters that drive the real library behind the simulated seams.
package checks

import (
	"fmt"
	"io"
	"runtime/debug"
	"strings"

	"github.com/ulikunitz/xz"
	"github.com/ulikunitz/xz/lzma"

	"verif/sim"
)

// ---- configurations (JSON-able mirrors of the library's config structs) ----

// XZCfg mirrors xz.WriterConfig.
type XZCfg struct {
	// ViaVerify: the caller starts from nil Properties, calls Verify() (which
	// fills the defaults into the config in place) and then sets LC/LP/PB
	// through the pointer it finds there - same effective configuration as
	// passing Properties, different use of the API
	ViaVerify  bool `json:",omitempty"`
	LC, LP, PB int
	NoProps    bool  `json:",omitempty"` // leave Properties nil (library default)
	DictCap    int   `json:",omitempty"`
	BufSize    int   `json:",omitempty"`
	BlockSize  int64 `json:",omitempty"`
	CheckSum   byte  `json:",omitempty"`
	NoCheckSum bool  `json:",omitempty"`
	Matcher    byte  `json:",omitempty"`
}

func (c XZCfg) lib() xz.WriterConfig {
	w := xz.WriterConfig{DictCap: c.DictCap, BufSize: c.BufSize, BlockSize: c.BlockSize,
		CheckSum: c.CheckSum, NoCheckSum: c.NoCheckSum, Matcher: lzma.MatchAlgorithm(c.Matcher)}
	if !c.NoProps && c.ViaVerify {
		if w.Verify() == nil && w.Properties != nil {
			w.Properties.LC, w.Properties.LP, w.Properties.PB = c.LC, c.LP, c.PB
		}
	} else if !c.NoProps {
		w.Properties = &lzma.Properties{LC: c.LC, LP: c.LP, PB: c.PB}
	}
	return w
}

// EffDictCap returns the dictionary capacity after defaults.
func (c XZCfg) EffDictCap() int {
	if c.DictCap == 0 {
		return 8 << 20
	}
	return c.DictCap
}

// EffCheck returns the check id after defaults.
func (c XZCfg) EffCheck() byte {
	if c.NoCheckSum {
		return 0
	}
	if c.CheckSum == 0 {
		return xz.CRC64
	}
	return c.CheckSum
}

// EffProps returns lc, lp, pb after defaults.
func (c XZCfg) EffProps() (int, int, int) {
	if c.NoProps {
		return 3, 0, 2
	}
	return c.LC, c.LP, c.PB
}

// L2Cfg mirrors lzma.Writer2Config.
type L2Cfg struct {
	// ViaVerify: the caller starts from nil Properties, calls Verify() (which
	// fills the defaults into the config in place) and then sets LC/LP/PB
	// through the pointer it finds there - same effective configuration as
	// passing Properties, different use of the API
	ViaVerify  bool `json:",omitempty"`
	LC, LP, PB int
	NoProps    bool `json:",omitempty"`
	DictCap    int  `json:",omitempty"`
	BufSize    int  `json:",omitempty"`
	Matcher    byte `json:",omitempty"`
}

func (c L2Cfg) lib() lzma.Writer2Config {
	w := lzma.Writer2Config{DictCap: c.DictCap, BufSize: c.BufSize, Matcher: lzma.MatchAlgorithm(c.Matcher)}
	if !c.NoProps && c.ViaVerify {
		if w.Verify() == nil && w.Properties != nil {
			w.Properties.LC, w.Properties.LP, w.Properties.PB = c.LC, c.LP, c.PB
		}
	} else if !c.NoProps {
		w.Properties = &lzma.Properties{LC: c.LC, LP: c.LP, PB: c.PB}
	}
	return w
}

func (c L2Cfg) EffDictCap() int {
	if c.DictCap == 0 {
		return 8 << 20
	}
	return c.DictCap
}

// LZCfg mirrors lzma.WriterConfig.
type LZCfg struct {
	ViaVerify    bool `json:",omitempty"` // see XZCfg
	LC, LP, PB   int
	NoProps      bool  `json:",omitempty"`
	DictCap      int   `json:",omitempty"`
	BufSize      int   `json:",omitempty"`
	Matcher      byte  `json:",omitempty"`
	SizeInHeader bool  `json:",omitempty"`
	Size         int64 `json:",omitempty"`
	EOSMarker    bool  `json:",omitempty"`
}

func (c LZCfg) lib() lzma.WriterConfig {
	w := lzma.WriterConfig{DictCap: c.DictCap, BufSize: c.BufSize, Matcher: lzma.MatchAlgorithm(c.Matcher),
		SizeInHeader: c.SizeInHeader, Size: c.Size, EOSMarker: c.EOSMarker}
	if !c.NoProps && c.ViaVerify {
		if w.Verify() == nil && w.Properties != nil {
			w.Properties.LC, w.Properties.LP, w.Properties.PB = c.LC, c.LP, c.PB
		}
	} else if !c.NoProps {
		w.Properties = &lzma.Properties{LC: c.LC, LP: c.LP, PB: c.PB}
	}
	return w
}

func (c LZCfg) EffDictCap() int {
	if c.DictCap == 0 {
		return 8 << 20
	}
	return c.DictCap
}

func (c LZCfg) EffProps() (int, int, int) {
	if c.NoProps {
		return 3, 0, 2
	}
	return c.LC, c.LP, c.PB
}

// HasSize reports whether the header carries an explicit size.
func (c LZCfg) HasSize() bool { return c.SizeInHeader || c.Size > 0 }

// HasMarker reports whether an end marker is written.
func (c LZCfg) HasMarker() bool { return c.EOSMarker || !c.HasSize() }

// ---- configuration generators (corners per DESIGN.md §2.4) ----

func genProps(r *sim.Rng, lzma2 bool) (lc, lp, pb int, none bool) {
	if r.Chance(1, 6) {
		return 0, 0, 0, true
	}
	for {
		lc, lp, pb = r.Intn(9), r.Intn(5), r.Intn(5)
		if r.Chance(1, 4) {
			lc, lp, pb = 3, 0, 2
		}
		if lzma2 && lc+lp > 4 {
			continue
		}
		return lc, lp, pb, false
	}
}

func genBufSize(r *sim.Rng) int {
	if r.Chance(1, 4) {
		// any legal look-ahead size, log-uniform, so that no relation between
		// BufSize, DictCap and the 64 KiB chunk size goes unvisited
		return logUniform(r, 273, 70000)
	}
	return sim.Pick(r, []int{273, 273, 274, 300, 1000, 4096, 4096, 0, 65536, 5000})
}

// logUniform draws from [lo, hi] with roughly equal weight per octave.
func logUniform(r *sim.Rng, lo, hi int) int {
	bits := 0
	for v := hi / lo; v > 0; v >>= 1 {
		bits++
	}
	span := lo << r.Intn(bits)
	v := span + r.Intn(span)
	if v > hi {
		v = lo + r.Intn(hi-lo+1)
	}
	return v
}

// genDictCap draws a dictionary capacity; big permits the 8 MiB default and
// other large values (10 ms of allocation each).
func genDictCap(r *sim.Rng, bufSize int, big bool) int {
	eb := bufSize
	if eb == 0 {
		eb = 4096
	}
	opts := []int{4096, 4096, 4097, 5000, 6144, 8192, 8193, 12288, 12289, 16384, 32768,
		65535 - eb - 1, 65535 - eb, 65535 - eb + 1, 65536 - eb, 65535, 65536, 65537, 1 << 17, 98304, 98305, 1 << 18}
	if big {
		opts = append(opts, 1<<20, 1<<20+1, 0, 3<<20, 1<<21)
	}
	d := sim.Pick(r, opts)
	if r.Chance(1, 4) {
		hi := 300000
		if big {
			hi = 4 << 20
		}
		d = logUniform(r, 4096, hi)
	}
	if d != 0 && d < 4096 {
		d = 4096
	}
	return d
}

func genMatcher(r *sim.Rng) byte {
	if r.Chance(1, 3) {
		return byte(lzma.BinaryTree)
	}
	return byte(lzma.HashTable4)
}

// GenXZCfg draws a valid xz writer configuration.
func GenXZCfg(r *sim.Rng, big bool) XZCfg {
	if r.Chance(1, 80) {
		return XZCfg{NoProps: true} // all defaults (the package-level constructor is used)
	}
	var c XZCfg
	c.LC, c.LP, c.PB, c.NoProps = genProps(r, true)
	c.ViaVerify = !c.NoProps && r.Chance(1, 8)
	c.BufSize = genBufSize(r)
	c.DictCap = genDictCap(r, c.BufSize, big)
	c.Matcher = genMatcher(r)
	c.BlockSize = sim.Pick(r, []int64{0, 0, 0, 1, 2, 7, 100, 4096, 65536, 65537, 1 << 20})
	if r.Chance(1, 8) {
		c.BlockSize = int64(r.Range(1, 5000))
	}
	switch r.Intn(5) {
	case 0:
		c.CheckSum = xz.CRC32
	case 1:
		c.CheckSum = xz.CRC64
	case 2:
		c.CheckSum = xz.SHA256
	case 3:
		c.NoCheckSum = true
		if r.Bool() {
			c.CheckSum = xz.CRC32 // NoCheckSum must win
		}
	}
	return c
}

// GenL2Cfg draws a valid LZMA2 writer configuration.
func GenL2Cfg(r *sim.Rng, big bool) L2Cfg {
	if r.Chance(1, 80) {
		return L2Cfg{NoProps: true} // all defaults
	}
	var c L2Cfg
	c.LC, c.LP, c.PB, c.NoProps = genProps(r, true)
	c.ViaVerify = !c.NoProps && r.Chance(1, 8)
	c.BufSize = genBufSize(r)
	c.DictCap = genDictCap(r, c.BufSize, big)
	c.Matcher = genMatcher(r)
	return c
}

// GenLZCfg draws a valid classic LZMA writer configuration for a payload of
// n bytes. lp2 restricts lc+lp <= 4 (interoperability side).
func GenLZCfg(r *sim.Rng, n int, big bool, interop bool) LZCfg {
	if r.Chance(1, 80) {
		return LZCfg{NoProps: true} // all defaults: end marker, no size in the header
	}
	var c LZCfg
	c.LC, c.LP, c.PB, c.NoProps = genProps(r, interop)
	c.ViaVerify = !c.NoProps && r.Chance(1, 8)
	c.BufSize = genBufSize(r)
	c.DictCap = genDictCap(r, c.BufSize, big)
	c.Matcher = genMatcher(r)
	switch r.Intn(3) {
	case 0: // marker only
	case 1: // size only
		c.SizeInHeader = true
		c.Size = int64(n)
	case 2: // both
		c.SizeInHeader = true
		c.Size = int64(n)
		c.EOSMarker = true
	}
	if c.Size > 0 && r.Bool() {
		c.SizeInHeader = false // Size > 0 implies it
	}
	return c
}

// dictAwarePayload draws a payload whose structure is aligned with the
// dictionary: X||X with |X| around the capacity, periods of capacity-1 /
// capacity / capacity+1 with sparse mismatches, and data several times the
// window (ring wrap, matches at exactly the maximum distance).
func dictAwarePayload(r *sim.Rng, dictCap, bufSize int) sim.Payload {
	if dictCap == 0 || dictCap > 1<<16 {
		dictCap = 4096
	}
	d := dictCap + r.Range(-1, 1)
	switch r.Intn(5) {
	case 4:
		// data of a short period over a tiny alphabet (zero bytes included)
		// that runs 1-3 bytes past the point where an LZMA2 chunk must end (a
		// chunk holds at most dictCap bytes when the dictionary is smaller than
		// 64 KiB), then something else: the match is cut by the chunk end and
		// the next chunk starts with literals that equal their match byte
		per := r.Bytes(r.Range(2, 1200))
		for i := range per {
			per[i] %= byte(r.Range(2, 4))
		}
		n := dictCap*r.Range(1, 2) + r.Range(1, 3)
		b := make([]byte, 0, n+400)
		for len(b) < n {
			b = append(b, per[len(b)%len(per)])
		}
		b[len(b)-1] = per[(len(b)-1)%len(per)]
		tail := r.Bytes(r.Range(10, 300))
		for i := range tail {
			tail[i] = 'a' + tail[i]%16
		}
		return sim.Lit(append(b, tail...))
	case 0:
		return sim.Payload{Kind: "dup", Parts: []sim.Payload{{Kind: "prng", N: d, Seed: r.Uint64()}}}
	case 1:
		return sim.Payload{Kind: "dup", Parts: []sim.Payload{{Kind: "text", N: d, Seed: r.Uint64()}}}
	case 2:
		// period d, a few repetitions, with a mismatch every ~50 bytes: matches
		// at the maximum distance directly followed by literals
		return sim.Payload{Kind: "pmis", N: d * r.Range(2, 5), Seed: r.Uint64(), A: d}
	}
	return sim.Payload{Kind: "period", N: d*r.Range(2, 4) + r.Range(0, 300), Seed: r.Uint64(), A: d}
}

// maxPayloadFor bounds payload sizes so that a run stays cheap: BinaryTree
// degenerates on repetitive data, tiny blocks allocate a coder per block.
func maxPayloadFor(matcher byte, blockSize int64, dictCap int, want int) int {
	m := want
	if matcher == byte(lzma.BinaryTree) && m > 16<<10 {
		m = 16 << 10
	}
	if blockSize > 0 {
		// every block sets up a coder with its own dictionary and match finder
		blocks := int64(120)
		if dictCap == 0 || dictCap > 1<<20 {
			blocks = 12
		}
		if lim := blockSize * blocks; int64(m) > lim {
			m = int(lim)
		}
	}
	return m
}

// hugeProfile decides whether a writer case uses the > 2 MiB profile, the only
// one that reaches the 2 MiB uncompressed limit of an LZMA2 chunk: one run in
// thoroughOdds in the thorough tier and a handful per quick batch.
func hugeProfile(r *sim.Rng, tier string, thoroughOdds int) bool {
	switch tier {
	case "thorough":
		return r.Chance(1, thoroughOdds)
	case "quick":
		return r.Chance(1, 3000)
	}
	return false // "src": the case only serves as a stream source of a fault engine
}

// hugePayload is the payload of the > 2 MiB profile: a compressible stretch
// longer than the 2 MiB chunk limit, then incompressible and text segments.
// The quick tier keeps the expensive (incompressible) part short.
func hugePayload(r *sim.Rng, tier string, max int) sim.Payload {
	if tier == "thorough" {
		return sim.Payload{Kind: "concat", Parts: []sim.Payload{
			{Kind: "zeros", N: max / 2},
			{Kind: "prng", N: max / 4, Seed: r.Uint64()},
			{Kind: "text", N: max / 4, Seed: r.Uint64()},
		}}
	}
	lead := sim.Payload{Kind: "zeros", N: max * 9 / 10}
	if r.Bool() {
		lead = sim.Payload{Kind: "run", N: max * 9 / 10, A: r.Intn(256)}
	}
	return sim.Payload{Kind: "concat", Parts: []sim.Payload{
		lead,
		{Kind: "prng", N: max / 40, Seed: r.Uint64()},
		{Kind: "text", N: max / 20, Seed: r.Uint64()},
	}}
}

// btLongPayload gives the BinaryTree matcher inputs longer than the 16 KiB cap
// of maxPayloadFor: the tree only degenerates on repetitive data, so
// incompressible stretches (with a duplicate or a short text island, so that
// long-distance matches and ring wrap still occur) stay cheap.
func btLongPayload(r *sim.Rng, want int) sim.Payload {
	if want > 300<<10 {
		want = 300 << 10
	}
	n := r.Range(17<<10, want)
	switch r.Intn(3) {
	case 0:
		return sim.Payload{Kind: "prng", N: n, Seed: r.Uint64()}
	case 1:
		return sim.Payload{Kind: "dup", Parts: []sim.Payload{{Kind: "prng", N: n / 2, Seed: r.Uint64()}}}
	}
	return sim.Payload{Kind: "concat", Parts: []sim.Payload{
		{Kind: "prng", N: n / 2, Seed: r.Uint64()},
		{Kind: "text", N: r.Range(0, 3000), Seed: r.Uint64()},
		{Kind: "prng", N: n / 2, Seed: r.Uint64()},
	}}
}

// mixedChunkPayload yields the chunk history compressed -> stored (one or
// more) -> compressed inside one block without any Flush: compressible data,
// an incompressible stretch covering more than two whole LZMA2 chunks (a chunk
// holds at most the dictionary capacity below 64 KiB), compressible data
// again - the coder state, rep distances included, has to survive the stored
// chunks on both sides.
func mixedChunkPayload(r *sim.Rng, dictCap int) sim.Payload {
	seg := dictCap
	if seg == 0 || seg > 1<<16 {
		seg = 1 << 16
	}
	comp := func(n int) sim.Payload {
		switch r.Intn(4) {
		case 0:
			return sim.Payload{Kind: "text", N: n, Seed: r.Uint64()}
		case 1:
			return sim.Payload{Kind: "period", N: n, Seed: r.Uint64(), A: r.Range(2, 40)}
		case 2:
			return sim.Payload{Kind: "alpha", N: n, Seed: r.Uint64(), A: r.Range(2, 4)}
		}
		return sim.Payload{Kind: "pmis", N: n, Seed: r.Uint64(), A: r.Range(3, 60)}
	}
	parts := []sim.Payload{comp(r.Range(200, seg+2000))}
	for i, k := 0, r.Range(1, 2); i < k; i++ {
		parts = append(parts, sim.Payload{Kind: "prng", N: r.Range(2*seg+100, 3*seg+500), Seed: r.Uint64()}, comp(r.Range(100, 3000)))
	}
	return sim.Payload{Kind: "concat", Parts: parts}
}

// rarePayload draws, for a small share of the quick and thorough runs, one of
// two expensive payload shapes together with the dictionary they need:
// almost incompressible data (a chunk closed by the 64 KiB compressed limit
// then holds just about 64 KiB of input: the store-or-compress decision at its
// sharpest) and noise followed by long copies from far back (expensive
// operations right at the compressed limit of a chunk). ok is false otherwise.
func rarePayload(r *sim.Rng, tier string) (pl sim.Payload, dictCap int, ok bool) {
	if tier != "quick" && tier != "thorough" {
		return pl, 0, false
	}
	switch {
	case r.Chance(1, 90):
		// a chunk whose LZMA form is within a fraction of a percent of its raw
		// form, on either side (where the writer decides between the two kinds
		// of chunk): noise - which LZMA expands by about 1.4 % - behind a run
		// that pays for 0.5 ... 3 % of it
		n := r.Range(66000, 140000)
		z := n / 200 * (1 << uint(r.Intn(3)))
		z += r.Intn(z + 1)
		return sim.Payload{Kind: "concat", Parts: []sim.Payload{{Kind: "run", N: z, A: r.Intn(256)}, {Kind: "prng", N: n, Seed: r.Uint64()}}},
			sim.Pick(r, []int{1 << 16, 1 << 17, 1 << 20}), true
	case r.Chance(1, 300):
		return sim.Payload{Kind: "alpha", N: r.Range(70<<10, 140<<10), Seed: r.Uint64(), A: r.Range(200, 255)},
			sim.Pick(r, []int{1 << 16, 1 << 17, 1 << 20}), true
	case r.Chance(1, 1500):
		a := r.Range(600<<10, 1200<<10)
		return sim.Payload{Kind: "farcopy", N: a + r.Range(150<<10, 400<<10), Seed: r.Uint64(), A: a}, 2 << 20, true
	}
	return pl, 0, false
}

// veryFarPayload: a short incompressible piece, more than 16 MiB of a single
// byte value, the piece again - one match whose distance needs a dictionary of
// 32 MiB (what gxz -8 uses). Expensive (about a second, 250 MB): one case per
// quick batch of a writer check, a few per thorough batch.
func veryFarPayload(r *sim.Rng, idx int) (sim.Payload, int) {
	x := sim.Payload{Kind: "prng", N: r.Range(100<<10, 256<<10), Seed: r.Uint64()}
	gap, dict := r.Range(16<<20+1000, 23<<20), 1<<25
	if idx%2 == 0 {
		// ... or of 64 MiB (gxz -9): a distance between 32 and 64 MiB
		x.N = r.Range(1<<10, 64<<10)
		gap, dict = r.Range(32<<20+1000, 40<<20), 1<<26
	}
	return sim.Payload{Kind: "concat", Parts: []sim.Payload{x, {Kind: "run", N: gap, A: r.Intn(256)}, x}}, dict
}

// isVeryFarCase picks the run indices that get the veryFarPayload.
func isVeryFarCase(tier string, idx int) bool {
	if tier == "thorough" {
		return idx%60000 == 555 || idx%60000 == 556
	}
	return tier == "quick" && (idx == 555 || idx == 556 || idx == 557)
}

// ---- guarded calls into the library ----

// PanicInfo describes a recovered panic of library code.
type PanicInfo struct {
	Value string
	Stack string
}

// guard runs f and recovers a panic.
func guard(f func()) (p *PanicInfo) {
	defer func() {
		if r := recover(); r != nil {
			if ie, ok := r.(sim.InfraError); ok {
				panic(ie)
			}
			p = &PanicInfo{Value: fmt.Sprint(r), Stack: trimStack(string(debug.Stack()))}
		}
	}()
	f()
	return nil
}

func trimStack(s string) string {
	lines := strings.Split(s, "\n")
	var keep []string
	for _, l := range lines {
		if strings.Contains(l, "ulikunitz/xz") || strings.Contains(l, "/repo/") || strings.Contains(l, "/cmd/gxz/") {
			keep = append(keep, strings.TrimSpace(l))
		}
		if len(keep) >= 10 {
			break
		}
	}
	return strings.Join(keep, " | ")
}

// panicSite extracts "file:line" of the first library frame from a trimmed stack.
func panicSite(p *PanicInfo) string {
	for _, f := range strings.Split(p.Stack, " | ") {
		if i := strings.Index(f, ".go:"); i >= 0 {
			j := strings.LastIndex(f[:i], "/")
			k := strings.IndexAny(f[i+4:], " +")
			end := len(f)
			if k >= 0 {
				end = i + 4 + k
			}
			return f[j+1 : end]
		}
	}
	return "unknown"
}

// readAll reads r to the end with the given Read-length schedule (nil: one
// big buffer growth like io.ReadAll). It stops at limit bytes.
func readAllPlain(r io.Reader, limit int) (out []byte, err error) {
	buf := make([]byte, 32<<10)
	for {
		n, e := r.Read(buf)
		if n < 0 || n > len(buf) {
			return out, fmt.Errorf("verif: Read returned n=%d for len(p)=%d", n, len(buf))
		}
		out = append(out, buf[:n]...)
		if e != nil {
			return out, e
		}
		if limit > 0 && len(out) > limit {
			return out, fmt.Errorf("verif: output limit %d exceeded", limit)
		}
	}
}

func firstDiff(a, b []byte) int {
	n := len(a)
	if len(b) < n {
		n = len(b)
	}
	for i := 0; i < n; i++ {
		if a[i] != b[i] {
			return i
		}
	}
	if len(a) != len(b) {
		return n
	}
	return -1
}

func isPrefix(p, full []byte) bool {
	if len(p) > len(full) {
		return false
	}
	for i := range p {
		if p[i] != full[i] {
			return false
		}
	}
	return true
}
