package checks

import "verif/ref/liblzma"

func liblzmaState() string {
	if liblzma.Available {
		return "present (" + liblzma.Version() + ")"
	}
	return "absent"
}
