package checks

import (
	"fmt"

	"verif/ref/refxz"
	"verif/sim"
)

type structEdit struct {
	kind string
	what string
	img  []byte
}

func u64p(v uint64) *uint64 { return &v }

// rebuildStream re-assembles stream si of a parsed file with a hook that may
// alter block specs, records, record count or footer fields. Everything the
// hook leaves alone stays consistent.
type rebuildHook struct {
	block   func(i int, b *refxz.BlockSpec)
	records func(recs []refxz.Record) []refxz.Record
	count   func(n uint64) uint64
	footer  func(flag0, flag1 *byte, backward *uint32)
	// ixExtra makes integers of the index over-long (see refxz.BuildIndexLong);
	// the footer keeps the backward size of the index in its shortest form
	ixExtra func(i int) int
}

func rebuildStream(s []byte, f *refxz.File, si int, h rebuildHook) []byte {
	st := f.Streams[si]
	out := append([]byte(nil), s[:st.Offset]...)
	out = append(out, refxz.StreamHeader(st.CheckID)...)
	var recs []refxz.Record
	for i, b := range st.Blocks {
		spec := refxz.BlockSpec{
			Data:         s[b.DataOffset : b.DataOffset+b.CompSize],
			Content:      b.Content,
			DictByte:     b.DictByte,
			WithCompSize: b.HasCompSize,
			WithUncomp:   b.HasUncompSize,
		}
		if h.block != nil {
			h.block(i, &spec)
		}
		hd := refxz.BuildBlockHeader(spec)
		out = append(out, hd...)
		out = append(out, spec.Data...)
		for k := len(spec.Data); k%4 != 0; k++ {
			out = append(out, 0)
		}
		cv := refxz.CheckValue(st.CheckID, spec.Content)
		out = append(out, cv...)
		recs = append(recs, refxz.Record{Unpadded: uint64(len(hd) + len(spec.Data) + len(cv)), Uncompressed: uint64(len(spec.Content))})
	}
	count := uint64(len(recs))
	if h.records != nil {
		recs = h.records(recs)
	}
	if h.count != nil {
		count = h.count(count)
	}
	ix := refxz.BuildIndexCount(recs, count)
	f0, f1, bw := byte(0), st.CheckID, uint32(len(ix)/4-1)
	if h.ixExtra != nil {
		ix = refxz.BuildIndexLong(recs, count, h.ixExtra)
	}
	out = append(out, ix...)
	if h.footer != nil {
		h.footer(&f0, &f1, &bw)
	}
	out = append(out, refxz.FooterRaw(f0, f1, bw)...)
	return append(out, s[st.End:]...)
}

// structEdits produces the field-level edits applicable to the stream.
func structEdits(b *Built, f *refxz.File, r *sim.Rng) []structEdit {
	s := b.Stream
	var out []structEdit
	add := func(kind, what string, img []byte) {
		out = append(out, structEdit{kind: kind, what: kind + ": " + what, img: img})
	}
	clone := func() []byte { return append([]byte(nil), s...) }
	streams := []int{0}
	if len(f.Streams) > 1 {
		streams = append(streams, len(f.Streams)-1)
	}
	for _, si := range streams {
		st := f.Streams[si]
		tag := fmt.Sprintf("stream %d", si)
		blocks := []int{}
		if len(st.Blocks) > 0 {
			blocks = append(blocks, 0)
			if len(st.Blocks) > 1 {
				blocks = append(blocks, len(st.Blocks)-1)
			}
		}
		hdrSpan := refxz.Span{Kind: "stream-header", Start: st.Offset, End: st.Offset + 12}
		ftSpan := refxz.Span{Kind: "footer", Start: st.FooterOffset, End: st.FooterOffset + 12}
		ixSpan := refxz.Span{Kind: "index", Start: st.IndexOffset, End: st.IndexOffset + st.IndexSize}
		for _, bi := range blocks {
			bl := st.Blocks[bi]
			btag := fmt.Sprintf("%s block %d", tag, bi)
			bhSpan := refxz.Span{Kind: "block-header", Start: bl.HeaderOffset, End: bl.DataOffset}
			// size fields in the block header with a wrong value
			for _, d := range []int64{1, -1, 4} {
				v := int64(bl.CompSize) + d
				if v >= 1 {
					add("block-header-compressed-size", fmt.Sprintf("%s declares %d, is %d", btag, v, bl.CompSize),
						rebuildStream(s, f, si, rebuildHook{block: func(i int, sp *refxz.BlockSpec) {
							if i == bi {
								sp.WithCompSize = true
								sp.CompSizeOverride = u64p(uint64(v))
							}
						}}))
				}
			}
			for _, d := range []int64{1, -1} {
				v := int64(bl.UncompSize) + d
				if v >= 0 {
					add("block-header-uncompressed-size", fmt.Sprintf("%s declares %d, is %d", btag, v, bl.UncompSize),
						rebuildStream(s, f, si, rebuildHook{block: func(i int, sp *refxz.BlockSpec) {
							if i == bi {
								sp.WithUncomp = true
								sp.UncompSizeOverride = u64p(uint64(v))
							}
						}}))
				}
			}
			// sizes with high bits set (overflow-style edits)
			for _, hb := range []uint{32, 40, 62, 63} {
				add("block-header-compressed-size", fmt.Sprintf("%s declares %d+2^%d", btag, bl.CompSize, hb),
					rebuildStream(s, f, si, rebuildHook{block: func(i int, sp *refxz.BlockSpec) {
						if i == bi {
							sp.WithCompSize = true
							sp.CompSizeOverride = u64p(uint64(bl.CompSize) + 1<<hb)
						}
					}}))
				add("block-header-uncompressed-size", fmt.Sprintf("%s declares %d+2^%d", btag, bl.UncompSize, hb),
					rebuildStream(s, f, si, rebuildHook{block: func(i int, sp *refxz.BlockSpec) {
						if i == bi {
							sp.WithUncomp = true
							sp.UncompSizeOverride = u64p(uint64(bl.UncompSize) + 1<<hb)
						}
					}}))
				add("index-unpadded-size", fmt.Sprintf("%s record +2^%d", btag, hb),
					rebuildStream(s, f, si, rebuildHook{records: func(recs []refxz.Record) []refxz.Record {
						recs[bi].Unpadded += 1 << hb
						return recs
					}}))
				add("index-uncompressed-size", fmt.Sprintf("%s record +2^%d", btag, hb),
					rebuildStream(s, f, si, rebuildHook{records: func(recs []refxz.Record) []refxz.Record {
						recs[bi].Uncompressed += 1 << hb
						return recs
					}}))
			}
			// index record fields
			for _, d := range []int64{1, -1, 4, -4} {
				add("index-unpadded-size", fmt.Sprintf("%s record %+d", btag, d),
					rebuildStream(s, f, si, rebuildHook{records: func(recs []refxz.Record) []refxz.Record {
						recs[bi].Unpadded = uint64(int64(recs[bi].Unpadded) + d)
						return recs
					}}))
			}
			for _, d := range []int64{1, -1} {
				if int64(bl.UncompSize)+d < 0 {
					continue
				}
				add("index-uncompressed-size", fmt.Sprintf("%s record %+d", btag, d),
					rebuildStream(s, f, si, rebuildHook{records: func(recs []refxz.Record) []refxz.Record {
						recs[bi].Uncompressed = uint64(int64(recs[bi].Uncompressed) + d)
						return recs
					}}))
			}
			// padding bytes
			if bl.PaddingLen > 0 {
				img := clone()
				img[bl.DataOffset+bl.CompSize+r.Intn(bl.PaddingLen)] = byte(r.Range(1, 255))
				add("nonzero-block-padding", btag, img)
				if bl.PaddingLen >= 2 {
					// two non-zero bytes that cancel in a sum, an xor-free test
					img := clone()
					a := byte(r.Range(1, 255))
					img[bl.DataOffset+bl.CompSize], img[bl.DataOffset+bl.CompSize+1] = a, -a
					add("nonzero-block-padding", btag+", two bytes summing to 256", img)
				}
			}
			if bl.HeaderPadding > 0 {
				img := clone()
				img[bl.DataOffset-4-1-r.Intn(bl.HeaderPadding)] = byte(r.Range(1, 255))
				refxz.Reseal(img, bhSpan)
				add("nonzero-header-padding", btag, img)
				if bl.HeaderPadding >= 2 {
					img := clone()
					a := byte(r.Range(1, 255))
					img[bl.DataOffset-4-1], img[bl.DataOffset-4-2] = a, -a
					refxz.Reseal(img, bhSpan)
					add("nonzero-header-padding", btag+", two bytes summing to 256", img)
				}
			}
			// a size field whose variable-length integer never ends inside the
			// header (continuation bit on every byte up to the header's CRC): with
			// the rest of the file as it was, and with the file ending right
			// behind that header, or behind four zero bytes after it
			{
				img := clone()
				img[bl.HeaderOffset+1] |= 0x40
				for q := bl.HeaderOffset + 2; q < bl.DataOffset-4; q++ {
					img[q] = 0x80 | byte(r.Intn(128))
				}
				refxz.Reseal(img, bhSpan)
				add("block-header-field-overrun", btag, img)
				add("block-header-field-overrun", btag+", file ends behind the header", append([]byte(nil), img[:bl.DataOffset]...))
				add("block-header-field-overrun", btag+", four zero bytes and the end of the file behind the header", append(append([]byte(nil), img[:bl.DataOffset]...), 0, 0, 0, 0))
			}
			// reserved block flag bits
			{
				img := clone()
				img[bl.HeaderOffset+1] |= byte(4 << uint(r.Intn(4)))
				refxz.Reseal(img, bhSpan)
				add("reserved-block-flags", btag, img)
			}
			// filter id, property size, dictionary byte: the three bytes before the header padding
			fp := bl.DataOffset - 4 - bl.HeaderPadding - 3
			if fp > bl.HeaderOffset+1 && s[fp] == 0x21 && s[fp+1] == 1 {
				for _, id := range []byte{0x03, 0x04, 0x20, 0x22} {
					img := clone()
					img[fp] = id
					refxz.Reseal(img, bhSpan)
					add("unsupported-filter-id", fmt.Sprintf("%s id %#x", btag, id), img)
				}
				// ids of more than one byte whose low byte is the LZMA2 id, and ids in
				// the reserved range
				for _, id := range []uint64{0x21 + 256*uint64(r.Range(1, 63)), 0x21 + 1<<uint(r.Range(14, 61)), 0x21 + 1<<62, 1<<63 - 1 - 0xde} {
					raw := append(refxz.PutVarint(nil, id), 1, s[fp+2])
					add("unsupported-filter-id", fmt.Sprintf("%s id %#x", btag, id), rebuildStream(s, f, si, rebuildHook{block: func(i int, sp *refxz.BlockSpec) {
						if i == bi {
							sp.FilterRaw = raw
						}
					}}))
				}
				for _, sz := range []byte{0, 2} {
					img := clone()
					img[fp+1] = sz
					refxz.Reseal(img, bhSpan)
					add("filter-property-size", fmt.Sprintf("%s size %d", btag, sz), img)
				}
				// out of range values, and the reserved bits 6 and 7 over a valid code
				for _, db := range []byte{41, 0x7f, 0xff, 0x40 | s[fp+2], 0x80 | s[fp+2], 0xc0 | byte(r.Intn(40))} {
					img := clone()
					img[fp+2] = db
					refxz.Reseal(img, bhSpan)
					add("dictionary-byte", fmt.Sprintf("%s byte %d", btag, db), img)
				}
			}
			// reserved bits in the control byte of the end chunk or of an
			// uncompressed chunk (0x03-0x7f are invalid control bytes)
			for ci, ch := range bl.Chunks {
				if ch.Kind != "end" && ch.Kind[0] != 'U' {
					continue
				}
				if ci != 0 && ci != len(bl.Chunks)-1 && r.Chance(2, 3) {
					continue
				}
				img := clone()
				img[bl.DataOffset+ch.Offset] |= byte(4 << uint(r.Intn(5)))
				add("chunk-control-reserved-bits", fmt.Sprintf("%s chunk %d (%s) control byte %#x", btag, ci, ch.Kind, img[bl.DataOffset+ch.Offset]), img)
			}
			// the compressed-size field of an LZMA2 chunk header (no CRC covers it;
			// the decoder knows where the chunk's data ends): too large, too small
			for ci, ch := range bl.Chunks {
				if ch.Kind == "end" || ch.Kind[0] != 'L' || (ci != 0 && ci != len(bl.Chunks)-2 && r.Chance(3, 4)) {
					continue
				}
				at := bl.DataOffset + ch.Offset + 3
				for _, d := range []int{1, 2, 4, -1} {
					v := ch.Compressed - 1 + d
					if v < 0 || v > 0xffff {
						continue
					}
					img := clone()
					img[at], img[at+1] = byte(v>>8), byte(v)
					add("chunk-compressed-size", fmt.Sprintf("%s chunk %d declares %d compressed bytes, has %d", btag, ci, v+1, ch.Compressed), img)
				}
			}
			// wrong check value
			if n := len(bl.Check); n > 0 {
				img := clone()
				off := bl.HeaderOffset + bl.TotalSize - n + r.Intn(n)
				img[off] ^= 1 << uint(r.Intn(8))
				add("wrong-check-value", btag, img)
			}
		}
		// record count
		add("index-record-count", tag+" count+1", rebuildStream(s, f, si, rebuildHook{count: func(n uint64) uint64 { return n + 1 }}))
		if len(st.Blocks) > 0 {
			add("index-record-count", tag+" count-1", rebuildStream(s, f, si, rebuildHook{count: func(n uint64) uint64 { return n - 1 }}))
			add("index-record-count", tag+" last record dropped", rebuildStream(s, f, si, rebuildHook{
				records: func(recs []refxz.Record) []refxz.Record { return recs[:len(recs)-1] },
				count:   func(n uint64) uint64 { return n - 1 }}))
		}
		for _, hb := range []uint{32, 62} {
			add("index-record-count", fmt.Sprintf("%s count+2^%d", tag, hb), rebuildStream(s, f, si, rebuildHook{count: func(n uint64) uint64 { return n + 1<<hb }}))
		}
		add("index-record-count", tag+" extra record", rebuildStream(s, f, si, rebuildHook{
			records: func(recs []refxz.Record) []refxz.Record {
				return append(recs, refxz.Record{Unpadded: 24, Uncompressed: 0})
			},
			count: func(n uint64) uint64 { return n + 1 }}))
		// the index longer than the backward size says, no value changed: one of
		// its integers (or two) carries four surplus bytes; the index padding and
		// CRC32 fit the real length, the footer is the one of the original
		{
			nint := 1 + 2*len(st.Blocks)
			for _, n := range []int{1, 2} {
				a := r.Intn(nint)
				c := r.Intn(nint)
				if n == 1 {
					c = a
				}
				add("backward-size", fmt.Sprintf("%s index integer %d (and %d) four bytes longer than needed, footer unchanged", tag, a, c),
					rebuildStream(s, f, si, rebuildHook{ixExtra: func(i int) int {
						if i == a || i == c {
							return 4
						}
						return 0
					}}))
			}
		}
		// index padding
		{
			// padding bytes precede the CRC32; find them by re-walking the index
			end := st.IndexOffset + st.IndexSize - 4
			p := end - 1
			npad := 0
			for p > st.IndexOffset && s[p] == 0 && npad < 3 {
				// a zero byte directly before the CRC may also be the last byte of a
				// record (uncompressed size 0); only alignment tells them apart
				npad++
				p--
			}
			// recompute exactly: walk varints
			q := st.IndexOffset + 1
			skip := func() {
				for s[q]&0x80 != 0 {
					q++
				}
				q++
			}
			skip()
			for range st.Blocks {
				skip()
				skip()
			}
			if q < end {
				img := clone()
				img[q+r.Intn(end-q)] = byte(r.Range(1, 255))
				refxz.Reseal(img, ixSpan)
				add("nonzero-index-padding", tag, img)
				if end-q >= 2 {
					img := clone()
					a := byte(r.Range(1, 255))
					img[q], img[q+1] = a, -a
					refxz.Reseal(img, ixSpan)
					add("nonzero-index-padding", tag+", two bytes summing to 256", img)
				}
			}
		}
		// backward size (relative to the true value of the re-assembled stream)
		for _, d := range []int{1, -1} {
			d := d
			if st.IndexSize/4-1+d < 0 {
				continue
			}
			add("backward-size", fmt.Sprintf("%s %+d", tag, d*4), rebuildStream(s, f, si, rebuildHook{footer: func(f0, f1 *byte, b *uint32) {
				if int(*b)+d >= 0 {
					*b = uint32(int(*b) + d)
				} else {
					*b = *b + 1
				}
			}}))
		}
		// backward size with high bits set / extreme values (arithmetic in too narrow a type)
		for _, ed := range []func(uint32) uint32{
			func(v uint32) uint32 { return v | 1<<30 },
			func(v uint32) uint32 { return v | 1<<31 },
			func(v uint32) uint32 { return v + 3<<30 },
			func(v uint32) uint32 { return 0xFFFFFFFF },
			func(v uint32) uint32 { return v ^ 1<<uint(8+len(s)%20) },
		} {
			ed := ed
			add("backward-size", tag+" high bits / extreme value", rebuildStream(s, f, si, rebuildHook{footer: func(f0, f1 *byte, b *uint32) { *b = ed(*b) }}))
		}
		// footer flags differ from header flags, both valid
		for _, id := range []byte{0, 1, 4, 10} {
			if id == st.CheckID {
				continue
			}
			add("footer-flags", fmt.Sprintf("%s header check %#x footer %#x", tag, st.CheckID, id),
				rebuildStream(s, f, si, rebuildHook{footer: func(f0, f1 *byte, b *uint32) { *f1 = id }}))
		}
		// reserved stream flag bits, consistently in header and footer
		{
			img := clone()
			img[st.Offset+6] = 1
			img[st.FooterOffset+8] = 1
			refxz.Reseal(img, hdrSpan)
			refxz.Reseal(img, ftSpan)
			add("reserved-stream-flags", tag+" first flag byte", img)
			img = clone()
			img[st.Offset+7] |= 0x10 << uint(r.Intn(4))
			img[st.FooterOffset+9] = img[st.Offset+7]
			refxz.Reseal(img, hdrSpan)
			refxz.Reseal(img, ftSpan)
			add("reserved-stream-flags", tag+" high nibble", img)
		}
		// reserved bits / foreign ids in the header only and in the footer only
		// (each side individually re-sealed; the other side untouched)
		for _, side := range []string{"header", "footer"} {
			off, span := st.Offset+6, hdrSpan
			if side == "footer" {
				off, span = st.FooterOffset+8, ftSpan
			}
			img := clone()
			img[off+1] |= 0x10 << uint(r.Intn(4))
			refxz.Reseal(img, span)
			add("reserved-stream-flags", tag+" high nibble in the "+side+" only", img)
			img = clone()
			img[off] = byte(1 << uint(r.Intn(8)))
			refxz.Reseal(img, span)
			add("reserved-stream-flags", tag+" first flag byte in the "+side+" only", img)
			img = clone()
			img[off+1] = sim.Pick(r, []byte{0x02, 0x03, 0x05, 0x0b, 0x0f})
			refxz.Reseal(img, span)
			add("unsupported-check-id", tag+" in the "+side+" only", img)
		}
		// unsupported check ids, consistently
		for _, id := range []byte{0x02, 0x03, 0x05, 0x09, 0x0b, 0x0f} {
			img := clone()
			img[st.Offset+7] = id
			img[st.FooterOffset+9] = id
			refxz.Reseal(img, hdrSpan)
			refxz.Reseal(img, ftSpan)
			add("unsupported-check-id", fmt.Sprintf("%s id %#x", tag, id), img)
		}
		// stream padding
		if st.PaddingAfter > 0 {
			img := clone()
			img[st.End+r.Intn(st.PaddingAfter)] = byte(r.Range(1, 255))
			add("nonzero-stream-padding", tag, img)
		}
	}
	return out
}
