// Package simio provides the simulated sink (io.Writer), source (io.Reader)
// and stored-data fault model that stand between the library and its
// environment.
package simio

import (
	"bufio"
	"errors"
	"io"

	"verif/sim"
)

// InjectedError is the error type returned by injected faults.
type InjectedError struct{ Kind string }

func (e *InjectedError) Error() string { return "simio: injected " + e.Kind }

// SinkPlan says when and how the sink fails.
type SinkPlan struct {
	FailAt     int    `json:"fail_at,omitempty"` // 1-based call index, 0 = never
	Forever    bool   `json:"forever,omitempty"`
	Partial    int    `json:"partial,omitempty"` // bytes of the failing call that are persisted
	Kind       string `json:"kind,omitempty"`    // EIO | ENOSPC
	ByteWriter bool   `json:"byte_writer,omitempty"`
	// FullCount: the failing call persists all its bytes and reports the full
	// count together with the error (legal for an io.Writer: n < len(p)
	// requires an error, an error does not require n < len(p))
	FullCount bool `json:"full_count,omitempty"`
}

// Sink is a recording, fault-injecting io.Writer.
type Sink struct {
	Plan     SinkPlan
	Calls    int
	Image    []byte
	Fired    int
	Err      *InjectedError
	LastCall int // index of last call
	// OnCall, if set, runs at the start of every sink call (scheduling point).
	OnCall func()
}

// NewSink creates a sink.
func NewSink(p SinkPlan) *Sink {
	k := p.Kind
	if k == "" {
		k = "EIO"
	}
	return &Sink{Plan: p, Err: &InjectedError{Kind: k}}
}

// Writer returns the io.Writer handed to the library: the sink itself, or a
// wrapper that also implements io.ByteWriter.
func (s *Sink) Writer() io.Writer {
	if s.Plan.ByteWriter {
		return byteSink{s}
	}
	return sinkOnly{s}
}

type sinkOnly struct{ s *Sink }

func (w sinkOnly) Write(p []byte) (int, error) { return w.s.write(p) }

type byteSink struct{ s *Sink }

func (w byteSink) Write(p []byte) (int, error) { return w.s.write(p) }
func (w byteSink) WriteByte(c byte) error {
	_, err := w.s.write([]byte{c})
	return err
}

func (s *Sink) write(p []byte) (int, error) {
	if s.OnCall != nil {
		s.OnCall()
	}
	s.Calls++
	fail := s.Plan.FailAt > 0 && (s.Calls == s.Plan.FailAt || (s.Plan.Forever && s.Calls > s.Plan.FailAt))
	if fail {
		s.Fired++
		n := s.Plan.Partial
		if s.Calls > s.Plan.FailAt {
			n = 0
		}
		if n >= len(p) {
			n = len(p) - 1
		}
		if n < 0 {
			n = 0
		}
		if s.Plan.FullCount && s.Calls == s.Plan.FailAt {
			n = len(p)
		}
		s.Image = append(s.Image, p[:n]...)
		return n, s.Err
	}
	s.Image = append(s.Image, p...)
	return len(p), nil
}

// SourcePlan says how the source fragments its data and where it fails.
type SourcePlan struct {
	Frag        string `json:"frag,omitempty"` // whole | one | seeded
	FragSeed    uint64 `json:"frag_seed,omitempty"`
	EOFWithData bool   `json:"eof_with_data,omitempty"`
	Fail        bool   `json:"fail,omitempty"`
	FailAt      int    `json:"fail_at,omitempty"` // byte offset at which the device fails
	WithData    bool   `json:"with_data,omitempty"`
	// Once: the failure is transient - the error is returned bare exactly once
	// at FailAt, afterwards the source carries on from that offset.
	Once bool `json:"once,omitempty"`
	// ByteReader: the reader handed to the library also implements
	// io.ByteReader (like *bytes.Reader or *bufio.Reader, the sources most
	// callers use; the library takes a different path for them)
	ByteReader bool `json:"byte_reader,omitempty"`
	// Bufio > 0: the library gets a *bufio.Reader of that buffer size over the
	// source (what gxz and most file-reading callers pass; it offers ReadByte,
	// Peek, Discard and WriteTo)
	Bufio int `json:"bufio,omitempty"`
	// Zero > 0: about one call in Zero returns (0, nil) - "nothing happened",
	// which io.Reader allows (and discourages) - at most three times in a row,
	// before the source goes on as planned.
	Zero int `json:"zero,omitempty"`
}

// Source is a fragmenting, fault-injecting io.Reader over a byte image.
type Source struct {
	Plan     SourcePlan
	img      []byte
	off      int
	rng      *sim.Rng
	zrng     *sim.Rng
	zeroRun  int
	Zeros    int // calls that returned (0, nil)
	failed   bool
	onceDone bool
	Err      *InjectedError
	Calls    int // Read calls with len(p) > 0
	Empty    int // of those, calls that returned no data
	Fired    int
	// BareFired counts calls that returned the error without any data.
	BareFired int
	EOFs      int
	// OnCall, if set, runs at the start of every source call (scheduling point).
	OnCall func()
}

// NewSource creates a source.
func NewSource(img []byte, p SourcePlan) *Source {
	return &Source{Plan: p, img: img, rng: sim.NewRng(p.FragSeed), zrng: sim.NewRng(p.FragSeed ^ 0x5a45524f), Err: &InjectedError{Kind: "source-EIO"}}
}

// Reader returns the io.Reader handed to the library: the source behind a
// wrapper that exposes only Read, or one that also implements io.ByteReader.
func (s *Source) Reader() io.Reader {
	if s.Plan.Bufio > 0 {
		return bufio.NewReaderSize(sourceOnly{s}, s.Plan.Bufio)
	}
	if s.Plan.ByteReader {
		return byteSource{s}
	}
	return sourceOnly{s}
}

type sourceOnly struct{ s *Source }

func (r sourceOnly) Read(p []byte) (int, error) { return r.s.Read(p) }

type byteSource struct{ s *Source }

func (r byteSource) Read(p []byte) (int, error) { return r.s.Read(p) }

// ReadByte delivers one byte; an error that arrives together with the byte is
// reported by the next call (the simulated failures and EOF are repeatable).
func (r byteSource) ReadByte() (byte, error) {
	var b [1]byte
	for i := 0; i < 8; i++ {
		n, err := r.s.Read(b[:])
		if n == 1 {
			return b[0], nil
		}
		if err != nil {
			return 0, err
		}
	}
	return 0, io.ErrNoProgress
}

// Offset returns the number of bytes delivered so far.
func (s *Source) Offset() int { return s.off }

func (s *Source) Read(p []byte) (int, error) {
	if len(p) == 0 {
		return 0, nil
	}
	if s.OnCall != nil {
		s.OnCall()
	}
	s.Calls++
	if s.failed {
		s.Empty++
		s.Fired++
		s.BareFired++
		return 0, s.Err
	}
	if s.Plan.Zero > 0 {
		if s.zeroRun < 3 && s.zrng.Intn(s.Plan.Zero) == 0 {
			s.zeroRun++
			s.Zeros++
			return 0, nil
		}
		s.zeroRun = 0
	}
	end := len(s.img)
	failing := s.Plan.Fail && !(s.Plan.Once && s.onceDone)
	if failing && s.Plan.FailAt < end {
		end = s.Plan.FailAt
	}
	if s.off >= end {
		s.Empty++
		if failing && s.Plan.FailAt <= len(s.img) {
			if s.Plan.Once {
				s.onceDone = true
				s.Fired++
				s.BareFired++
				return 0, s.Err
			}
			s.failed = true
			s.Fired++
			s.BareFired++
			return 0, s.Err
		}
		s.EOFs++
		return 0, io.EOF
	}
	n := len(p)
	switch s.Plan.Frag {
	case "one":
		n = 1
	case "seeded":
		m := 1
		switch s.rng.Intn(4) {
		case 0:
			m = 1
		case 1:
			m = s.rng.Range(1, 7)
		case 2:
			m = s.rng.Range(1, 300)
		default:
			m = s.rng.Range(1, 70000)
		}
		if m < n {
			n = m
		}
	}
	if n > end-s.off {
		n = end - s.off
	}
	copy(p, s.img[s.off:s.off+n])
	s.off += n
	if s.off == end {
		if failing && s.Plan.FailAt <= len(s.img) {
			if s.Plan.WithData && !s.Plan.Once {
				s.failed = true
				s.Fired++
				return n, s.Err
			}
		} else if s.Plan.EOFWithData {
			s.EOFs++
			return n, io.EOF
		}
	}
	return n, nil
}

// IsInjected reports whether err is, or wraps, the injected error inj.
func IsInjected(err error, inj *InjectedError) bool {
	if err == nil {
		return false
	}
	if err == error(inj) {
		return true
	}
	return errors.Is(err, inj)
}
