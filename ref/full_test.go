package ref

import (
	"bytes"
	"testing"

	"verif/ref/liblzma"
	"verif/ref/refenc"
	"verif/ref/reflzma"
	"verif/ref/refxz"
	"verif/sim"
)

// A chunk filled to an exact compressed size decodes under the reference decoder.
func TestFullChunk(t *testing.T) {
	for _, target := range []int{65536, 65535, 40000, 100} {
		r := sim.NewRng(uint64(target))
		cs := refenc.Realise(r, []string{"LRND", "L", "end"}, refenc.SeqOptions{DictSize: 1 << 16, ForceCompressed: map[int]int{0: target}})
		c := int(cs.Stream[3])<<8 | int(cs.Stream[4]) + 1
		if c != target {
			t.Fatalf("target %d: chunk states %d compressed bytes", target, c)
		}
		res, err := reflzma.DecodeLZMA2(cs.Stream, 1<<16, false, false)
		if err != nil || !bytes.Equal(res.Out, cs.Content) {
			t.Fatalf("target %d: %v (%d vs %d bytes)", target, err, len(res.Out), len(cs.Content))
		}
	}
}

// Far-distance streams are accepted by the reference decoders and liblzma.
func TestFarStreams(t *testing.T) {
	for s := uint64(0); s < 4; s++ {
		for _, format := range []string{"xz", "lzma", "lzma2"} {
			f := refenc.GenFar(sim.NewRng(s), format)
			var out, lout []byte
			var err, lerr error
			switch format {
			case "xz":
				var p *refxz.File
				p, err = refxz.Parse(f.Stream, false)
				if err == nil {
					out = p.Content
				}
				if liblzma.Available {
					lout, lerr = liblzma.DecodeXZ(f.Stream)
				}
			case "lzma":
				var res *reflzma.AloneResult
				res, err = reflzma.DecodeAlone(f.Stream, false)
				if err == nil {
					out = res.Out
				}
				if liblzma.Available && f.Stream[0] < 9*5 {
					lout, _, lerr = liblzma.DecodeAlone(f.Stream)
				} else {
					lout = f.Content
				}
			case "lzma2":
				var res *reflzma.LZMA2Result
				res, err = reflzma.DecodeLZMA2(f.Stream, f.Dict, true, false)
				if err == nil {
					out = res.Out
				}
				if liblzma.Available {
					lout, _, lerr = liblzma.DecodeRawLZMA2(f.Stream, uint32(f.Dict))
				}
			}
			if err != nil || !bytes.Equal(out, f.Content) {
				t.Fatalf("seed %d %s: reference decoder err=%v len=%d want %d", s, format, err, len(out), len(f.Content))
			}
			if liblzma.Available && (lerr != nil || !bytes.Equal(lout, f.Content)) {
				t.Fatalf("seed %d %s: liblzma err=%v len=%d want %d", s, format, lerr, len(lout), len(f.Content))
			}
			if len(f.Content) <= 8<<20 {
				t.Fatalf("content only %d bytes", len(f.Content))
			}
			t.Logf("%s seed %d: stream %d bytes, content %d bytes, dict %d", format, s, len(f.Stream), len(f.Content), f.Dict)
		}
	}
}
