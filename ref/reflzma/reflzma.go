// Package reflzma is an independent reference decoder for raw LZMA, the
// classic .lzma container and LZMA2 chunk sequences. It is written from the
// LZMA specification (lzma-specification.txt of the LZMA SDK) and from the
// LZMA2 chunk rules as liblzma applies them. It shares no code with the
// library under test.
package reflzma

import (
	"errors"
	"fmt"
)

// Errors of the reference decoder.
var (
	ErrTruncated = errors.New("reflzma: input ends inside the stream")
	ErrCorrupt   = errors.New("reflzma: corrupt data")
)

func corrupt(format string, a ...any) error {
	return fmt.Errorf("%w: %s", ErrCorrupt, fmt.Sprintf(format, a...))
}

const (
	probInit  = 1024
	numStates = 12
	posMax    = 16
	kEndPos   = 14
	kFullDist = 128
	kAlign    = 4
	matchMin  = 2
	eosDist   = 0xFFFFFFFF
)

// next-state tables, written out from the specification.
var (
	nextLit      = [numStates]uint8{0, 0, 0, 0, 1, 2, 3, 4, 5, 6, 4, 5}
	nextMatch    = [numStates]uint8{7, 7, 7, 7, 7, 7, 7, 10, 10, 10, 10, 10}
	nextRep      = [numStates]uint8{8, 8, 8, 8, 8, 8, 8, 11, 11, 11, 11, 11}
	nextShortRep = [numStates]uint8{9, 9, 9, 9, 9, 9, 9, 11, 11, 11, 11, 11}
)

type rangeDec struct {
	in   []byte
	pos  int
	rng  uint32
	code uint32
	err  error
}

func (d *rangeDec) next() uint32 {
	if d.pos >= len(d.in) {
		if d.err == nil {
			d.err = ErrTruncated
		}
		return 0
	}
	b := d.in[d.pos]
	d.pos++
	return uint32(b)
}

func (d *rangeDec) init() error {
	if d.pos >= len(d.in) {
		return ErrTruncated
	}
	if b := d.next(); b != 0 {
		return corrupt("first range coder byte is %#x", b)
	}
	d.rng = 0xFFFFFFFF
	d.code = 0
	for i := 0; i < 4; i++ {
		d.code = d.code<<8 | d.next()
	}
	if d.err != nil {
		return d.err
	}
	if d.code == d.rng {
		return corrupt("range coder init code == range")
	}
	return nil
}

func (d *rangeDec) normalize() {
	if d.rng < 1<<24 {
		d.rng <<= 8
		d.code = d.code<<8 | d.next()
	}
}

func (d *rangeDec) bit(p *uint16) uint32 {
	bound := (d.rng >> 11) * uint32(*p)
	var b uint32
	if d.code < bound {
		*p += (2048 - *p) >> 5
		d.rng = bound
	} else {
		*p -= *p >> 5
		d.code -= bound
		d.rng -= bound
		b = 1
	}
	d.normalize()
	return b
}

func (d *rangeDec) direct(n int) uint32 {
	var res uint32
	for ; n > 0; n-- {
		d.rng >>= 1
		d.code -= d.rng
		t := 0 - (d.code >> 31)
		d.code += d.rng & t
		if d.code == d.rng && d.err == nil {
			d.err = corrupt("direct bits: code == range")
		}
		d.normalize()
		res = res<<1 + t + 1
	}
	return res
}

func (d *rangeDec) tree(probs []uint16, bits int) uint32 {
	m := uint32(1)
	for i := 0; i < bits; i++ {
		m = m<<1 + d.bit(&probs[m])
	}
	return m - 1<<uint(bits)
}

func (d *rangeDec) rtree(probs []uint16, bits int) uint32 {
	m := uint32(1)
	var sym uint32
	for i := 0; i < bits; i++ {
		b := d.bit(&probs[m])
		m = m<<1 + b
		sym |= b << uint(i)
	}
	return sym
}

type lenDec struct {
	choice, choice2 uint16
	low             [posMax][8]uint16
	mid             [posMax][8]uint16
	high            [256]uint16
}

func fill(p []uint16) {
	for i := range p {
		p[i] = probInit
	}
}

func (l *lenDec) reset() {
	l.choice, l.choice2 = probInit, probInit
	for i := range l.low {
		fill(l.low[i][:])
		fill(l.mid[i][:])
	}
	fill(l.high[:])
}

func (l *lenDec) decode(d *rangeDec, posState uint32) uint32 {
	if d.bit(&l.choice) == 0 {
		return d.tree(l.low[posState][:], 3)
	}
	if d.bit(&l.choice2) == 0 {
		return 8 + d.tree(l.mid[posState][:], 3)
	}
	return 16 + d.tree(l.high[:], 8)
}

// Props are the lc/lp/pb parameters.
type Props struct{ LC, LP, PB int }

// PropsFromByte decodes a properties byte.
func PropsFromByte(b byte) (Props, error) {
	if b >= 9*5*5 {
		return Props{}, corrupt("properties byte %d out of range", b)
	}
	var p Props
	p.LC = int(b % 9)
	b /= 9
	p.LP = int(b % 5)
	p.PB = int(b / 5)
	return p, nil
}

// Byte encodes the properties.
func (p Props) Byte() byte { return byte((p.PB*5+p.LP)*9 + p.LC) }

// Model is the LZMA probability model and coder state.
type Model struct {
	P           Props
	lit         []uint16
	isMatch     [numStates][posMax]uint16
	isRep       [numStates]uint16
	isRepG0     [numStates]uint16
	isRepG1     [numStates]uint16
	isRepG2     [numStates]uint16
	isRep0Long  [numStates][posMax]uint16
	posSlot     [4][64]uint16
	posSpecial  [1 + kFullDist - kEndPos]uint16
	align       [1 << kAlign]uint16
	lenD, repLD lenDec
	state       uint32
	rep         [4]uint32
}

// NewModel creates a model in its initial state.
func NewModel(p Props) *Model {
	m := &Model{P: p}
	m.Reset()
	return m
}

// Reset puts the model into its initial state (an LZMA2 "state reset").
func (m *Model) Reset() {
	n := 0x300 << uint(m.P.LC+m.P.LP)
	if len(m.lit) != n {
		m.lit = make([]uint16, n)
	}
	fill(m.lit)
	for i := range m.isMatch {
		fill(m.isMatch[i][:])
		fill(m.isRep0Long[i][:])
	}
	fill(m.isRep[:])
	fill(m.isRepG0[:])
	fill(m.isRepG1[:])
	fill(m.isRepG2[:])
	for i := range m.posSlot {
		fill(m.posSlot[i][:])
	}
	fill(m.posSpecial[:])
	fill(m.align[:])
	m.lenD.reset()
	m.repLD.reset()
	m.state = 0
	m.rep = [4]uint32{}
}

// Op is one decoded operation, reported in traces.
type Op struct {
	Kind string // lit, match, rep0..rep3, shortrep, eos
	Len  int
	Dist int64
}

// Trace summarises what a decode saw; it feeds reach probes.
type Trace struct {
	Lits, Matches, ShortReps int
	Reps                     [4]int
	EOS                      bool
	MaxDist                  int64
	MaxLen                   int
	DistAtWindowEdge         int // matches whose distance equals the bytes available
	Ops                      []Op
	KeepOps                  bool
}

func (t *Trace) add(op Op) {
	if t == nil {
		return
	}
	switch op.Kind {
	case "lit":
		t.Lits++
	case "match":
		t.Matches++
	case "shortrep":
		t.ShortReps++
	case "rep0":
		t.Reps[0]++
	case "rep1":
		t.Reps[1]++
	case "rep2":
		t.Reps[2]++
	case "rep3":
		t.Reps[3]++
	case "eos":
		t.EOS = true
	}
	if op.Dist > t.MaxDist && op.Kind != "eos" {
		t.MaxDist = op.Dist
	}
	if op.Len > t.MaxLen {
		t.MaxLen = op.Len
	}
	if t.KeepOps {
		t.Ops = append(t.Ops, op)
	}
}

// window is the decoder history: a flat slice; distances are checked against
// the bytes since the last dictionary reset and the declared dictionary size.
type window struct {
	out       []byte
	resetAt   int   // index in out of the last dictionary reset
	dictSize  int64 // declared dictionary size
	processed int64
}

func (w *window) avail() int64 {
	n := int64(len(w.out) - w.resetAt)
	if n > w.dictSize {
		n = w.dictSize
	}
	return n
}

// decodeOps decodes operations until limit bytes have been produced
// (limit < 0: until the end marker). It returns whether an end marker was
// seen.
func decodeOps(d *rangeDec, m *Model, w *window, limit int64, allowEOS bool, tr *Trace) (eos bool, err error) {
	start := int64(len(w.out))
	pbMask := uint32(1)<<uint(m.P.PB) - 1
	lpMask := uint32(1)<<uint(m.P.LP) - 1
	for {
		produced := int64(len(w.out)) - start
		if limit >= 0 && produced >= limit {
			return false, nil
		}
		if d.err != nil {
			return false, d.err
		}
		pos := uint32(int64(len(w.out) - w.resetAt)) // position since dictionary reset
		posState := pos & pbMask
		st := m.state
		if d.bit(&m.isMatch[st][posState]) == 0 {
			// literal
			var prev byte
			if w.avail() > 0 || len(w.out) > w.resetAt {
				if len(w.out) > w.resetAt {
					prev = w.out[len(w.out)-1]
				}
			}
			litState := (pos&lpMask)<<uint(m.P.LC) + uint32(prev)>>uint(8-m.P.LC)
			probs := m.lit[0x300*litState : 0x300*litState+0x300]
			sym := uint32(1)
			if st >= 7 {
				dist := int64(m.rep[0]) + 1
				if dist > w.avail() {
					return false, corrupt("matched literal with rep0 %d beyond window %d", dist, w.avail())
				}
				mb := uint32(w.out[len(w.out)-int(dist)])
				for sym < 0x100 {
					matchBit := (mb >> 7) & 1
					mb <<= 1
					b := d.bit(&probs[(1+matchBit)<<8+sym])
					sym = sym<<1 | b
					if matchBit != b {
						break
					}
				}
			}
			for sym < 0x100 {
				sym = sym<<1 | d.bit(&probs[sym])
			}
			if d.err != nil {
				return false, d.err
			}
			w.out = append(w.out, byte(sym))
			m.state = uint32(nextLit[st])
			tr.add(Op{Kind: "lit", Len: 1})
			continue
		}
		var length uint32
		kind := "match"
		if d.bit(&m.isRep[st]) == 0 {
			m.rep[3], m.rep[2], m.rep[1] = m.rep[2], m.rep[1], m.rep[0]
			length = m.lenD.decode(d, posState)
			m.state = uint32(nextMatch[st])
			// distance
			ls := length
			if ls > 3 {
				ls = 3
			}
			slot := d.tree(m.posSlot[ls][:], 6)
			var dist uint32
			if slot < 4 {
				dist = slot
			} else {
				nd := int(slot>>1) - 1
				dist = (2 | slot&1) << uint(nd)
				if slot < kEndPos {
					dist += d.rtree(m.posSpecial[dist-slot:], nd)
				} else {
					dist += d.direct(nd-kAlign) << kAlign
					dist += d.rtree(m.align[:], kAlign)
				}
			}
			if d.err != nil {
				return false, d.err
			}
			m.rep[0] = dist
			if dist == eosDist {
				tr.add(Op{Kind: "eos", Len: int(length) + matchMin, Dist: int64(dist)})
				if !allowEOS {
					return true, corrupt("end marker where none is allowed")
				}
				return true, nil
			}
		} else {
			if w.avail() == 0 {
				return false, corrupt("rep with empty dictionary")
			}
			if d.bit(&m.isRepG0[st]) == 0 {
				if d.bit(&m.isRep0Long[st][posState]) == 0 {
					if d.err != nil {
						return false, d.err
					}
					dist := int64(m.rep[0]) + 1
					if dist > w.avail() {
						return false, corrupt("short rep distance %d beyond window %d", dist, w.avail())
					}
					m.state = uint32(nextShortRep[st])
					w.out = append(w.out, w.out[len(w.out)-int(dist)])
					tr.add(Op{Kind: "shortrep", Len: 1, Dist: dist})
					continue
				}
				kind = "rep0"
			} else {
				var dist uint32
				if d.bit(&m.isRepG1[st]) == 0 {
					dist = m.rep[1]
					kind = "rep1"
				} else {
					if d.bit(&m.isRepG2[st]) == 0 {
						dist = m.rep[2]
						kind = "rep2"
					} else {
						dist = m.rep[3]
						m.rep[3] = m.rep[2]
						kind = "rep3"
					}
					m.rep[2] = m.rep[1]
				}
				m.rep[1] = m.rep[0]
				m.rep[0] = dist
			}
			length = m.repLD.decode(d, posState)
			m.state = uint32(nextRep[st])
		}
		if d.err != nil {
			return false, d.err
		}
		n := int(length) + matchMin
		dist := int64(m.rep[0]) + 1
		if dist > w.avail() {
			return false, corrupt("%s distance %d beyond window %d", kind, dist, w.avail())
		}
		if limit >= 0 && produced+int64(n) > limit {
			return false, corrupt("%s of length %d overruns the declared size", kind, n)
		}
		if tr != nil && dist == w.avail() {
			tr.DistAtWindowEdge++
		}
		for i := 0; i < n; i++ {
			w.out = append(w.out, w.out[len(w.out)-int(dist)])
		}
		tr.add(Op{Kind: kind, Len: n, Dist: dist})
	}
}

// AloneHeader is the parsed 13-byte .lzma header.
type AloneHeader struct {
	Props    Props
	DictSize uint32
	Size     int64 // -1 = unknown
}

// ParseAloneHeader parses a .lzma header.
func ParseAloneHeader(b []byte) (AloneHeader, error) {
	var h AloneHeader
	if len(b) < 13 {
		return h, ErrTruncated
	}
	p, err := PropsFromByte(b[0])
	if err != nil {
		return h, err
	}
	h.Props = p
	h.DictSize = uint32(b[1]) | uint32(b[2])<<8 | uint32(b[3])<<16 | uint32(b[4])<<24
	var s uint64
	for i := 0; i < 8; i++ {
		s |= uint64(b[5+i]) << (8 * uint(i))
	}
	if s == 1<<64-1 {
		h.Size = -1
	} else {
		if s > 1<<62 {
			return h, corrupt("absurd size %d", s)
		}
		h.Size = int64(s)
	}
	return h, nil
}

// AloneResult is the outcome of decoding a .lzma stream.
type AloneResult struct {
	Header   AloneHeader
	Out      []byte
	EOS      bool
	Consumed int
	Trace    Trace
}

// DecodeAlone decodes a classic .lzma stream with the termination rules of
// liblzma's alone decoder: with a known size decoding stops when the size is
// reached; if the range coder is not in its final state then, one more symbol
// is decoded and must be the end marker. With unknown size the end marker is
// required. Distances are checked against max(header dictionary size, 4096).
func DecodeAlone(in []byte, keepOps bool) (*AloneResult, error) {
	h, err := ParseAloneHeader(in)
	if err != nil {
		return nil, err
	}
	res := &AloneResult{Header: h}
	res.Trace.KeepOps = keepOps
	d := &rangeDec{in: in, pos: 13}
	if err := d.init(); err != nil {
		return res, err
	}
	m := NewModel(h.Props)
	ds := int64(h.DictSize)
	if ds < 4096 {
		ds = 4096
	}
	w := &window{dictSize: ds}
	eos, err := decodeOps(d, m, w, h.Size, true, &res.Trace)
	res.Out = w.out
	res.Consumed = d.pos
	if err != nil {
		return res, err
	}
	if eos {
		res.EOS = true
		if h.Size >= 0 && int64(len(w.out)) != h.Size {
			return res, corrupt("end marker after %d bytes, header says %d", len(w.out), h.Size)
		}
		// normalisation after the marker has been done by bit(); the coder
		// must be in its final state
		if d.code != 0 {
			return res, corrupt("range coder not finished after end marker")
		}
		return res, nil
	}
	// known size reached
	if d.code != 0 {
		eos, err = decodeOps(d, m, w, -1, true, &res.Trace)
		res.Consumed = d.pos
		if err != nil {
			return res, err
		}
		if !eos || len(w.out) != len(res.Out) {
			return res, corrupt("data after the declared size")
		}
		res.EOS = true
		if d.code != 0 {
			return res, corrupt("range coder not finished after end marker")
		}
	}
	return res, nil
}

// Chunk describes one LZMA2 chunk as parsed by the reference decoder.
type Chunk struct {
	Control      byte
	Kind         string // end, U, UD, L, LR, LRN, LRND
	Offset       int    // offset of the control byte
	HeaderLen    int
	Uncompressed int
	Compressed   int // payload bytes (for U/UD: == Uncompressed)
	Props        Props
}

// KindOf maps a control byte to the chunk kind; ok is false for 0x03..0x7f.
func KindOf(c byte) (kind string, ok bool) {
	switch {
	case c == 0:
		return "end", true
	case c == 1:
		return "UD", true
	case c == 2:
		return "U", true
	case c < 0x80:
		return "", false
	}
	switch (c >> 5) & 3 {
	case 0:
		return "L", true
	case 1:
		return "LR", true
	case 2:
		return "LRN", true
	}
	return "LRND", true
}

// LZMA2Result is the outcome of decoding an LZMA2 chunk sequence.
type LZMA2Result struct {
	Out      []byte
	Chunks   []Chunk
	Consumed int  // bytes consumed including the end chunk
	Ended    bool // end chunk seen
	Trace    Trace
	// BadChunk is the index of the offending chunk when err != nil and the
	// failure is a chunk-discipline failure (else -1).
	BadChunk int
}

// DecodeLZMA2 decodes an LZMA2 chunk sequence with the rules of liblzma's
// LZMA2 decoder. dictSize is the declared dictionary size. If requireEnd is
// false the input may stop at a chunk boundary without an end chunk (used for
// flushed prefixes).
func DecodeLZMA2(in []byte, dictSize int64, requireEnd bool, keepOps bool) (*LZMA2Result, error) {
	res := &LZMA2Result{BadChunk: -1}
	res.Trace.KeepOps = keepOps
	w := &window{dictSize: dictSize}
	var m *Model
	needDictReset := true
	needProps := true
	pos := 0
	for {
		if pos >= len(in) {
			res.Out = w.out
			res.Consumed = pos
			if requireEnd {
				return res, ErrTruncated
			}
			return res, nil
		}
		c := in[pos]
		ch := Chunk{Control: c, Offset: pos}
		kind, ok := KindOf(c)
		ch.Kind = kind
		idx := len(res.Chunks)
		fail := func(err error) (*LZMA2Result, error) {
			res.Out = w.out
			res.Consumed = pos
			res.BadChunk = idx
			return res, err
		}
		if c == 0 {
			ch.HeaderLen = 1
			res.Chunks = append(res.Chunks, ch)
			res.Out = w.out
			res.Consumed = pos + 1
			res.Ended = true
			return res, nil
		}
		if !ok {
			return fail(corrupt("invalid control byte %#x", c))
		}
		if c >= 0xE0 || c == 1 {
			needProps = true
			needDictReset = true
		} else if needDictReset {
			return fail(corrupt("chunk %#x without the required dictionary reset", c))
		}
		if c >= 0x80 {
			hl := 5
			if c >= 0xC0 {
				hl = 6
			}
			if pos+hl > len(in) {
				res.Out = w.out
				res.Consumed = pos
				return res, ErrTruncated
			}
			ch.HeaderLen = hl
			ch.Uncompressed = (int(c&0x1F)<<16 | int(in[pos+1])<<8 | int(in[pos+2])) + 1
			ch.Compressed = (int(in[pos+3])<<8 | int(in[pos+4])) + 1
			if c >= 0xC0 {
				p, err := PropsFromByte(in[pos+5])
				if err != nil {
					return fail(err)
				}
				if p.LC+p.LP > 4 {
					return fail(corrupt("lc+lp > 4 in LZMA2"))
				}
				ch.Props = p
				needProps = false
				m = NewModel(p)
			} else if needProps {
				return fail(corrupt("LZMA chunk %#x without the required new properties", c))
			} else if c >= 0xA0 {
				m.Reset()
			}
			if needDictReset {
				needDictReset = false
				w.resetAt = len(w.out)
			}
			if m != nil {
				ch.Props = m.P
			}
			body := pos + hl
			if body+ch.Compressed > len(in) {
				// decode what is there to report a truncation precisely
				res.Out = w.out
				res.Consumed = pos
				res.Chunks = append(res.Chunks, ch)
				return res, ErrTruncated
			}
			d := &rangeDec{in: in[body : body+ch.Compressed]}
			if err := d.init(); err != nil {
				return fail(err)
			}
			if _, err := decodeOps(d, m, w, int64(ch.Uncompressed), false, &res.Trace); err != nil {
				if errors.Is(err, ErrTruncated) {
					err = corrupt("compressed chunk data exhausted before %d bytes were produced", ch.Uncompressed)
				}
				return fail(err)
			}
			if d.err != nil {
				return fail(corrupt("compressed chunk data exhausted"))
			}
			if d.pos != len(d.in) {
				return fail(corrupt("chunk declares %d compressed bytes, decoder used %d", ch.Compressed, d.pos))
			}
			if d.code != 0 {
				return fail(corrupt("range coder not finished at chunk end"))
			}
			res.Chunks = append(res.Chunks, ch)
			pos = body + ch.Compressed
			continue
		}
		// uncompressed chunk
		if pos+3 > len(in) {
			res.Out = w.out
			res.Consumed = pos
			return res, ErrTruncated
		}
		ch.HeaderLen = 3
		ch.Uncompressed = (int(in[pos+1])<<8 | int(in[pos+2])) + 1
		ch.Compressed = ch.Uncompressed
		if needDictReset {
			needDictReset = false
			w.resetAt = len(w.out)
		}
		body := pos + 3
		if body+ch.Uncompressed > len(in) {
			res.Out = w.out
			res.Consumed = pos
			res.Chunks = append(res.Chunks, ch)
			return res, ErrTruncated
		}
		w.out = append(w.out, in[body:body+ch.Uncompressed]...)
		res.Chunks = append(res.Chunks, ch)
		pos = body + ch.Uncompressed
	}
}

// DictSizeFromByte decodes the LZMA2 dictionary size property of an xz block
// header (0..40).
func DictSizeFromByte(b byte) (int64, error) {
	if b > 40 {
		return 0, corrupt("dictionary size byte %d > 40", b)
	}
	if b == 40 {
		return 0xFFFFFFFF, nil
	}
	return int64(2|(b&1)) << (uint(b)/2 + 11), nil
}
