package reflzma

import "fmt"

// rangeEnc is a textbook LZMA range encoder (independent of the library's).
type rangeEnc struct {
	low       uint64
	rng       uint32
	cache     byte
	cacheSize int64
	out       []byte
}

func newRangeEnc() *rangeEnc { return &rangeEnc{rng: 0xFFFFFFFF, cacheSize: 1} }

func (e *rangeEnc) shiftLow() {
	if uint32(e.low) < 0xFF000000 || e.low>>32 != 0 {
		tmp := e.cache
		for {
			e.out = append(e.out, tmp+byte(e.low>>32))
			tmp = 0xFF
			e.cacheSize--
			if e.cacheSize == 0 {
				break
			}
		}
		e.cache = byte(e.low >> 24)
	}
	e.cacheSize++
	e.low = (e.low & 0x00FFFFFF) << 8
}

func (e *rangeEnc) bit(p *uint16, b uint32) {
	bound := (e.rng >> 11) * uint32(*p)
	if b == 0 {
		e.rng = bound
		*p += (2048 - *p) >> 5
	} else {
		e.low += uint64(bound)
		e.rng -= bound
		*p -= *p >> 5
	}
	for e.rng < 1<<24 {
		e.rng <<= 8
		e.shiftLow()
	}
}

func (e *rangeEnc) direct(v uint32, n int) {
	for i := n - 1; i >= 0; i-- {
		e.rng >>= 1
		if (v>>uint(i))&1 == 1 {
			e.low += uint64(e.rng)
		}
		for e.rng < 1<<24 {
			e.rng <<= 8
			e.shiftLow()
		}
	}
}

func (e *rangeEnc) flush() {
	for i := 0; i < 5; i++ {
		e.shiftLow()
	}
}

func (e *rangeEnc) tree(probs []uint16, bits int, v uint32) {
	m := uint32(1)
	for i := bits - 1; i >= 0; i-- {
		b := (v >> uint(i)) & 1
		e.bit(&probs[m], b)
		m = m<<1 | b
	}
}

func (e *rangeEnc) rtree(probs []uint16, bits int, v uint32) {
	m := uint32(1)
	for i := 0; i < bits; i++ {
		b := (v >> uint(i)) & 1
		e.bit(&probs[m], b)
		m = m<<1 | b
	}
}

func (l *lenDec) encode(e *rangeEnc, posState uint32, n uint32) {
	switch {
	case n < 8:
		e.bit(&l.choice, 0)
		e.tree(l.low[posState][:], 3, n)
	case n < 16:
		e.bit(&l.choice, 1)
		e.bit(&l.choice2, 0)
		e.tree(l.mid[posState][:], 3, n-8)
	default:
		e.bit(&l.choice, 1)
		e.bit(&l.choice2, 1)
		e.tree(l.high[:], 8, n-16)
	}
}

// Encoder encodes explicit LZMA operations chosen by a caller (the stream
// generator). It keeps the produced content so that distances can be checked.
type Encoder struct {
	M        *Model
	rc       *rangeEnc
	Hist     []byte // all content produced so far
	ResetAt  int    // index in Hist of the last dictionary reset
	DictSize int64
	segStart int // Hist length when the current range coder segment began
}

// NewEncoder creates an encoder with a fresh model.
func NewEncoder(p Props, dictSize int64) *Encoder {
	return &Encoder{M: NewModel(p), rc: newRangeEnc(), DictSize: dictSize}
}

// Avail returns the number of history bytes a distance may reach.
func (e *Encoder) Avail() int64 {
	n := int64(len(e.Hist) - e.ResetAt)
	if n > e.DictSize {
		n = e.DictSize
	}
	return n
}

// Rep returns the current rep distances (as distance-1 values).
func (e *Encoder) Rep() [4]uint32 { return e.M.rep }

// State returns the coder state number.
func (e *Encoder) State() uint32 { return e.M.state }

func (e *Encoder) pos() uint32 { return uint32(len(e.Hist) - e.ResetAt) }

// Lit encodes a literal.
func (e *Encoder) Lit(b byte) {
	m := e.M
	pos := e.pos()
	posState := pos & (1<<uint(m.P.PB) - 1)
	st := m.state
	e.rc.bit(&m.isMatch[st][posState], 0)
	var prev byte
	if len(e.Hist) > e.ResetAt {
		prev = e.Hist[len(e.Hist)-1]
	}
	litState := (pos&(1<<uint(m.P.LP)-1))<<uint(m.P.LC) + uint32(prev)>>uint(8-m.P.LC)
	probs := m.lit[0x300*litState : 0x300*litState+0x300]
	sym := uint32(1)
	i := 7
	if st >= 7 {
		dist := int64(m.rep[0]) + 1
		if dist > e.Avail() {
			panic("reflzma.Encoder: matched literal with rep0 beyond the window")
		}
		mb := uint32(e.Hist[len(e.Hist)-int(dist)])
		for ; i >= 0; i-- {
			matchBit := (mb >> 7) & 1
			mb <<= 1
			bit := uint32(b>>uint(i)) & 1
			e.rc.bit(&probs[(1+matchBit)<<8+sym], bit)
			sym = sym<<1 | bit
			if matchBit != bit {
				i--
				break
			}
		}
	}
	for ; i >= 0; i-- {
		bit := uint32(b>>uint(i)) & 1
		e.rc.bit(&probs[sym], bit)
		sym = sym<<1 | bit
	}
	e.Hist = append(e.Hist, b)
	m.state = uint32(nextLit[st])
}

func (e *Encoder) copyMatch(dist int64, n int) {
	if dist < 1 || dist > e.Avail() {
		panic(fmt.Sprintf("reflzma.Encoder: distance %d outside window %d", dist, e.Avail()))
	}
	for i := 0; i < n; i++ {
		e.Hist = append(e.Hist, e.Hist[len(e.Hist)-int(dist)])
	}
}

func (e *Encoder) encodeDist(dist uint32, lenOff uint32) {
	m := e.M
	ls := lenOff
	if ls > 3 {
		ls = 3
	}
	var slot uint32
	if dist < 4 {
		slot = dist
	} else {
		nb := uint32(0)
		for v := dist; v != 0; v >>= 1 {
			nb++
		}
		slot = (nb-1)<<1 | (dist>>(nb-2))&1
	}
	e.rc.tree(m.posSlot[ls][:], 6, slot)
	if slot < 4 {
		return
	}
	nd := int(slot>>1) - 1
	base := (2 | slot&1) << uint(nd)
	rem := dist - base
	if slot < kEndPos {
		e.rc.rtree(m.posSpecial[base-slot:], nd, rem)
	} else {
		e.rc.direct(rem>>kAlign, nd-kAlign)
		e.rc.rtree(m.align[:], kAlign, rem&(1<<kAlign-1))
	}
}

// Match encodes a simple match (also legal when dist equals a rep distance).
func (e *Encoder) Match(dist int64, n int) {
	if n < 2 || n > 273 {
		panic("reflzma.Encoder: match length out of range")
	}
	m := e.M
	posState := e.pos() & (1<<uint(m.P.PB) - 1)
	st := m.state
	if dist < 1 || dist > e.Avail() {
		panic(fmt.Sprintf("reflzma.Encoder: match distance %d outside window %d", dist, e.Avail()))
	}
	e.rc.bit(&m.isMatch[st][posState], 1)
	e.rc.bit(&m.isRep[st], 0)
	m.rep[3], m.rep[2], m.rep[1] = m.rep[2], m.rep[1], m.rep[0]
	m.lenD.encode(e.rc, posState, uint32(n-2))
	m.state = uint32(nextMatch[st])
	e.encodeDist(uint32(dist-1), uint32(n-2))
	m.rep[0] = uint32(dist - 1)
	e.copyMatch(dist, n)
}

// EOS encodes the end marker with the minimal length 2.
func (e *Encoder) EOS() { e.EOSLen(2) }

// EOSLen encodes the end marker (a match with distance 0xFFFFFFFF) with the
// given length 2..273; decoders must accept any length.
func (e *Encoder) EOSLen(n int) {
	if n < 2 || n > 273 {
		panic("reflzma.Encoder: end marker length out of range")
	}
	m := e.M
	posState := e.pos() & (1<<uint(m.P.PB) - 1)
	st := m.state
	e.rc.bit(&m.isMatch[st][posState], 1)
	e.rc.bit(&m.isRep[st], 0)
	m.rep[3], m.rep[2], m.rep[1] = m.rep[2], m.rep[1], m.rep[0]
	m.lenD.encode(e.rc, posState, uint32(n-2))
	m.state = uint32(nextMatch[st])
	e.encodeDist(eosDist, uint32(n-2))
	m.rep[0] = eosDist
}

// RepMatch encodes a rep match with rep index i (0..3) and length n (2..273).
func (e *Encoder) RepMatch(i int, n int) {
	if n < 2 || n > 273 {
		panic("reflzma.Encoder: rep length out of range")
	}
	m := e.M
	posState := e.pos() & (1<<uint(m.P.PB) - 1)
	st := m.state
	dist := int64(m.rep[i]) + 1
	if dist > e.Avail() {
		panic("reflzma.Encoder: rep distance outside window")
	}
	e.rc.bit(&m.isMatch[st][posState], 1)
	e.rc.bit(&m.isRep[st], 1)
	if i == 0 {
		e.rc.bit(&m.isRepG0[st], 0)
		e.rc.bit(&m.isRep0Long[st][posState], 1)
	} else {
		e.rc.bit(&m.isRepG0[st], 1)
		d := m.rep[i]
		if i == 1 {
			e.rc.bit(&m.isRepG1[st], 0)
		} else {
			e.rc.bit(&m.isRepG1[st], 1)
			if i == 2 {
				e.rc.bit(&m.isRepG2[st], 0)
			} else {
				e.rc.bit(&m.isRepG2[st], 1)
				m.rep[3] = m.rep[2]
			}
			m.rep[2] = m.rep[1]
		}
		m.rep[1] = m.rep[0]
		m.rep[0] = d
	}
	m.repLD.encode(e.rc, posState, uint32(n-2))
	m.state = uint32(nextRep[st])
	e.copyMatch(dist, n)
}

// ShortRep encodes a short rep (one byte at rep0).
func (e *Encoder) ShortRep() {
	m := e.M
	posState := e.pos() & (1<<uint(m.P.PB) - 1)
	st := m.state
	dist := int64(m.rep[0]) + 1
	if dist > e.Avail() {
		panic("reflzma.Encoder: short rep distance outside window")
	}
	e.rc.bit(&m.isMatch[st][posState], 1)
	e.rc.bit(&m.isRep[st], 1)
	e.rc.bit(&m.isRepG0[st], 0)
	e.rc.bit(&m.isRep0Long[st][posState], 0)
	m.state = uint32(nextShortRep[st])
	e.copyMatch(dist, 1)
}

// Finish flushes the range coder and returns the bytes of the segment; a new
// segment (LZMA2 chunk) starts afterwards with the model kept as it is.
func (e *Encoder) Finish() []byte {
	e.rc.flush()
	out := e.rc.out
	e.rc = newRangeEnc()
	e.segStart = len(e.Hist)
	return out
}

// SegmentLen returns the number of content bytes produced in the current
// segment.
func (e *Encoder) SegmentLen() int { return len(e.Hist) - e.segStart }

// PendingBytes is the size the current segment would have if it were finished
// now (bytes out, bytes held back for a carry, four flush bytes).
func (e *Encoder) PendingBytes() int { return len(e.rc.out) + int(e.rc.cacheSize) + 4 }

// EncSnap is a point an Encoder can be rolled back to (Snapshot / Restore).
type EncSnap struct {
	m                 Model
	lit               []uint16
	rc                rangeEnc
	outLen, histLen   int
	resetAt, segStart int
}

// Snapshot records the encoder state. Output and history only grow by
// appending, so their lengths are enough.
func (e *Encoder) Snapshot() *EncSnap {
	return &EncSnap{m: *e.M, lit: append([]uint16(nil), e.M.lit...), rc: *e.rc,
		outLen: len(e.rc.out), histLen: len(e.Hist), resetAt: e.ResetAt, segStart: e.segStart}
}

// Restore rolls the encoder back to a snapshot taken in the same segment.
func (e *Encoder) Restore(s *EncSnap) {
	out := e.rc.out[:s.outLen]
	*e.M = s.m
	e.M.lit = append([]uint16(nil), s.lit...)
	*e.rc = s.rc
	e.rc.out = out
	e.Hist = e.Hist[:s.histLen]
	e.ResetAt, e.segStart = s.resetAt, s.segStart
}

// AppendRaw adds uncompressed bytes to the history (LZMA2 uncompressed chunk).
func (e *Encoder) AppendRaw(b []byte) {
	e.Hist = append(e.Hist, b...)
	e.segStart = len(e.Hist)
}

// ResetDict marks a dictionary reset at the current position.
func (e *Encoder) ResetDict() { e.ResetAt = len(e.Hist) }

// ResetState resets the model, keeping the properties.
func (e *Encoder) ResetState() { e.M.Reset() }

// NewProps installs a fresh model with new properties.
func (e *Encoder) NewProps(p Props) { e.M = NewModel(p) }
