// Package refenc is the specification-driven stream generator ("foreign
// peer"): it draws arbitrary legal LZMA operation sequences, LZMA2 chunk
// layouts and .xz container layouts, encodes them with the independent
// reference encoder and knows the content it encoded.
package refenc

import (
	"verif/ref/reflzma"
	"verif/ref/refxz"
	"verif/sim"
)

// OpsProfile steers the operation generator.
type OpsProfile struct {
	MaxOps   int
	LitBias  int // weight of literals
	LongLens bool
}

// genOps encodes n operations drawn from the legal set into e.
// maxContent bounds the content produced in this call.
func genOps(r *sim.Rng, e *reflzma.Encoder, n int, maxContent int) {
	start := len(e.Hist)
	randLen := func() int {
		switch r.Weighted([]int{6, 3, 2, 1, 1}) {
		case 0:
			return r.Range(2, 9)
		case 1:
			return r.Range(10, 17)
		case 2:
			return r.Range(18, 272)
		case 3:
			return 273
		}
		return 2
	}
	for i := 0; i < n; i++ {
		if len(e.Hist)-start >= maxContent {
			return
		}
		room := maxContent - (len(e.Hist) - start)
		avail := e.Avail()
		kind := r.Weighted([]int{8, 6, 3, 2, 2, 2, 3})
		if avail == 0 {
			kind = 0
		}
		clampLen := func(l int) int {
			if l > room {
				l = room
			}
			return l
		}
		switch kind {
		case 0: // literal
			var b byte
			switch r.Intn(4) {
			case 0:
				b = 0
			case 1:
				if avail > 0 {
					// the byte a rep0 match would give (exercises matched literals)
					d := int64(e.Rep()[0]) + 1
					if d <= avail {
						b = e.Hist[len(e.Hist)-int(d)]
						break
					}
				}
				b = byte(r.Intn(256))
			default:
				b = byte(r.Intn(256))
			}
			e.Lit(b)
		case 1: // match
			l := clampLen(randLen())
			if l < 2 {
				e.Lit(byte(r.Intn(256)))
				continue
			}
			var d int64
			switch r.Weighted([]int{4, 3, 2, 2, 1}) {
			case 0:
				d = int64(r.Range(1, 8))
			case 1:
				d = int64(r.Range(1, 300))
			case 2:
				d = avail // exactly the window edge
			case 3:
				d = int64(r.Range(1, int(avail)))
			default:
				d = int64(e.Rep()[r.Intn(4)]) + 1 // simple match on a rep distance (legal)
			}
			if d > avail {
				d = avail
			}
			if d < 1 {
				d = 1
			}
			e.Match(d, l)
		case 2, 3, 4, 5: // rep0..rep3
			ri := kind - 2
			l := clampLen(randLen())
			if int64(e.Rep()[ri])+1 > avail || l < 2 {
				e.Lit(byte(r.Intn(256)))
				continue
			}
			e.RepMatch(ri, l)
		case 6: // short rep
			if int64(e.Rep()[0])+1 > avail {
				e.Lit(byte(r.Intn(256)))
				continue
			}
			e.ShortRep()
		}
	}
}

// badLZMA2Props draws parameters that are legal for classic LZMA and illegal
// for LZMA2: lc+lp > 4.
func badLZMA2Props(r *sim.Rng) reflzma.Props {
	for {
		p := reflzma.Props{LC: r.Intn(9), LP: r.Intn(5), PB: r.Intn(5)}
		if p.LC+p.LP > 4 {
			return p
		}
	}
}

// RandProps draws lc/lp/pb; lzma2 restricts lc+lp <= 4.
func RandProps(r *sim.Rng, lzma2 bool) reflzma.Props {
	for {
		p := reflzma.Props{LC: r.Intn(9), LP: r.Intn(5), PB: r.Intn(5)}
		if r.Chance(1, 3) {
			p = reflzma.Props{LC: 3, LP: 0, PB: 2}
		}
		if lzma2 && p.LC+p.LP > 4 {
			continue
		}
		return p
	}
}

// Alone is a generated classic .lzma stream.
type Alone struct {
	Stream  []byte
	Content []byte
	Mode    string // marker | size | both
	Props   reflzma.Props
	Dict    uint32
}

// GenAlone generates a valid .lzma stream.
func GenAlone(r *sim.Rng, maxOps int) *Alone {
	p := RandProps(r, false)
	dict := sim.Pick(r, []uint32{4096, 4096, 1 << 16, 1 << 20, 0, 1, 100, 5000, 1 << 12 * 3 / 2})
	mode := sim.Pick(r, []string{"marker", "size", "both"})
	eff := int64(dict)
	if eff < 4096 {
		eff = 4096 // decoders use at least 4096
	}
	// the header value itself bounds distances for liblzma when >= 4096; for
	// smaller values liblzma and the library both round up to 4096.
	e := reflzma.NewEncoder(p, eff)
	n := 0
	switch r.Weighted([]int{2, 5, 3}) {
	case 0:
		n = 0
	case 1:
		n = r.Range(1, 40)
	default:
		n = r.Range(1, maxOps)
	}
	genOps(r, e, n, 1<<20)
	if mode != "size" {
		// the end marker is a match with distance 0xFFFFFFFF of any length
		switch r.Intn(4) {
		case 0:
			e.EOSLen(r.Range(3, 273))
		case 1:
			e.EOSLen(sim.Pick(r, []int{3, 9, 10, 17, 18, 273}))
		default:
			e.EOS()
		}
	}
	body := e.Finish()
	h := make([]byte, 13)
	h[0] = p.Byte()
	h[1], h[2], h[3], h[4] = byte(dict), byte(dict>>8), byte(dict>>16), byte(dict>>24)
	size := uint64(len(e.Hist))
	if mode == "marker" {
		size = 1<<64 - 1
	}
	for i := 0; i < 8; i++ {
		h[5+i] = byte(size >> (8 * uint(i)))
	}
	return &Alone{Stream: append(h, body...), Content: append([]byte(nil), e.Hist...), Mode: mode, Props: p, Dict: dict}
}

// Chunk kinds in generator order.
var Kinds = []string{"end", "U", "UD", "L", "LR", "LRN", "LRND"}

// ChunkSeq is a realised LZMA2 chunk sequence.
type ChunkSeq struct {
	Stream []byte
	Kinds  []string
	// ContentUpTo[i] is the length of the content of chunks < i.
	ContentUpTo []int
	Content     []byte
	DictSize    int64
	// Offsets[i] is the byte offset of chunk i in Stream.
	Offsets []int
}

// ControlByte returns the control byte for a kind and uncompressed size.
func ControlByte(kind string, uncompressed int) byte {
	hi := byte((uncompressed - 1) >> 16 & 0x1F)
	switch kind {
	case "end":
		return 0
	case "UD":
		return 1
	case "U":
		return 2
	case "L":
		return 0x80 | hi
	case "LR":
		return 0xA0 | hi
	case "LRN":
		return 0xC0 | hi
	case "LRND":
		return 0xE0 | hi
	}
	panic("refenc: unknown kind " + kind)
}

// SeqOptions bounds a realised chunk sequence.
type SeqOptions struct {
	MaxOpsPerChunk int
	MaxRaw         int
	DictSize       int64
	BigChunk       bool // allow one chunk near the size limits
	// ForceSize gives chunk i an exact uncompressed size (LZMA chunks are then
	// filled with long rep matches).
	ForceSize map[int]int
	// FarChunk > 0: that chunk consists of matches reaching back beyond 8 MiB.
	FarChunk int
	// ForceCompressed gives LZMA chunk i an exact compressed size (1<<16 is
	// the largest the chunk header can state).
	ForceCompressed map[int]int
	// Garbage[i] replaces chunk i by these raw bytes (invalid control bytes).
	Garbage map[int][]byte
	// BadProps[i]: chunk i (LRN or LRND) carries literal parameters with
	// lc+lp > 4, which LZMA2 forbids (classic LZMA does not); the chunk's data
	// is encoded with exactly those parameters, so that only the rule can
	// reject it
	BadProps map[int]bool
	// Marker[i]: LZMA chunk i ends with the end-of-payload marker of the .lzma
	// format behind its data (inside the chunk's compressed size): LZMA2 has no
	// such marker, the chunk is illegal
	Marker map[int]bool
	// Costly[i]: LZMA chunk i consists of the most expensive legal operations -
	// two-byte matches at far, ever-changing distances - so that its compressed
	// size exceeds its uncompressed size by as much as the history allows (the
	// format states no relation between the two size fields of a chunk).
	Costly map[int]bool
}

// Realise encodes a sequence of chunk kinds (legal or not) as a byte stream.
// Every chunk is encoded the way it would be if the sequence were legal, so
// that the order is the only thing that can be wrong.
func Realise(r *sim.Rng, kinds []string, o SeqOptions) *ChunkSeq {
	if o.MaxOpsPerChunk <= 0 {
		o.MaxOpsPerChunk = 12
	}
	if o.MaxRaw <= 0 {
		o.MaxRaw = 20
	}
	if o.DictSize <= 0 {
		o.DictSize = 4096
	}
	cs := &ChunkSeq{Kinds: kinds, DictSize: o.DictSize}
	p := RandProps(r, true)
	e := reflzma.NewEncoder(p, o.DictSize)
	haveModel := false
	for ci, k := range kinds {
		cs.Offsets = append(cs.Offsets, len(cs.Stream))
		cs.ContentUpTo = append(cs.ContentUpTo, len(e.Hist))
		if g, ok := o.Garbage[ci]; ok {
			cs.Stream = append(cs.Stream, g...)
			continue
		}
		forced, isForced := o.ForceSize[ci]
		switch k {
		case "end":
			cs.Stream = append(cs.Stream, 0)
		case "U", "UD":
			n := r.Range(1, o.MaxRaw)
			if o.BigChunk && r.Chance(1, 3) {
				n = r.Range(60000, 65536)
			}
			if isForced {
				n = forced
			}
			raw := r.Bytes(n)
			if r.Bool() {
				for i := range raw {
					raw[i] = byte('a' + int(raw[i])%3)
				}
			}
			if k == "UD" {
				e.ResetDict()
			}
			e.AppendRaw(raw)
			cs.Stream = append(cs.Stream, ControlByte(k, n), byte((n-1)>>8), byte(n-1))
			cs.Stream = append(cs.Stream, raw...)
		default:
			switch k {
			case "LRND":
				e.ResetDict()
				p = RandProps(r, true)
				if o.BadProps[ci] {
					p = badLZMA2Props(r)
				}
				e.NewProps(p)
				haveModel = true
			case "LRN":
				p = RandProps(r, true)
				if o.BadProps[ci] {
					p = badLZMA2Props(r)
				}
				e.NewProps(p)
				haveModel = true
			case "LR":
				e.ResetState()
			}
			_ = haveModel
			if e.State() >= 7 && int64(e.Rep()[0])+1 > e.Avail() {
				// only reachable in an illegal sequence (dictionary reset
				// without state reset): decoders reject the chunk by its
				// header, so its body merely has to be encodable
				e.ResetState()
			}
			nops := r.Range(1, o.MaxOpsPerChunk)
			maxc := 1 << 16
			if o.BigChunk && r.Chance(1, 3) {
				nops = 200000
				maxc = r.Range(1<<21-600, 1<<21)
			}
			before := len(e.Hist)
			target, isFull := o.ForceCompressed[ci]
			if !isFull && !isForced && o.BigChunk && nops < 200000 && r.Chance(1, 3) {
				// a chunk filled to the very limit of the 16-bit compressed-size field
				target, isFull = 1<<16-r.Intn(3)*r.Intn(2), true
			}
			if o.Costly[ci] {
				costlyOps(r, e, r.Range(20, 6000))
				if len(e.Hist) == before {
					e.Lit(byte(r.Intn(256)))
				}
			} else if o.FarChunk > 0 && ci == o.FarChunk {
				farOps(r, e, r.Range(3, 40))
				if len(e.Hist) == before {
					e.Lit(byte(r.Intn(256)))
				}
			} else if isFull {
				fillCompressed(r, e, target)
			} else if isForced {
				if forced > 8 {
					genOpsBounded(r, e, r.Range(0, 6), forced-2)
				}
				for len(e.Hist)-before < forced {
					left := forced - (len(e.Hist) - before)
					if e.Avail() == 0 || left == 1 || int64(e.Rep()[0])+1 > e.Avail() {
						e.Lit(byte(r.Intn(4)))
						continue
					}
					l := 273
					if left < l {
						l = left
					}
					e.RepMatch(0, l)
				}
			} else {
				// at least one byte of content
				genOpsBounded(r, e, nops, maxc)
				if len(e.Hist) == before {
					e.Lit(byte(r.Intn(256)))
				}
			}
			if o.Marker[ci] {
				e.EOS()
			}
			body := e.Finish()
			u := len(e.Hist) - before
			c := len(body)
			cs.Stream = append(cs.Stream, ControlByte(k, u), byte((u-1)>>8), byte(u-1), byte((c-1)>>8), byte(c-1))
			if k == "LRN" || k == "LRND" {
				cs.Stream = append(cs.Stream, p.Byte())
			}
			cs.Stream = append(cs.Stream, body...)
		}
	}
	cs.ContentUpTo = append(cs.ContentUpTo, len(e.Hist))
	cs.Content = append([]byte(nil), e.Hist...)
	return cs
}

// fillCompressed adds operations until the segment, finished now, has exactly
// target compressed bytes: incompressible literals first, then one trial
// operation at a time, rolled back if it overshoots, from expensive to cheap.
func fillCompressed(r *sim.Rng, e *reflzma.Encoder, target int) {
	for e.PendingBytes() < target-24 {
		e.Lit(byte(r.Intn(256)))
	}
	for tries := 0; e.PendingBytes() < target && tries < 200000; tries++ {
		s := e.Snapshot()
		for cand := 0; cand < 4; cand++ {
			switch {
			case cand == 0:
				e.Lit(byte(r.Intn(256)))
			case cand == 1 && e.Avail() > 0:
				e.Lit(e.Hist[len(e.Hist)-1])
			case cand == 2 && e.Avail() > int64(e.Rep()[0]):
				e.ShortRep()
			case cand == 3 && e.Avail() > int64(e.Rep()[0]):
				e.RepMatch(0, 2)
			default:
				continue
			}
			if e.PendingBytes() <= target {
				break
			}
			e.Restore(s)
		}
	}
}

// genOpsBounded is genOps with a guard on the compressed size of the segment.
func genOpsBounded(r *sim.Rng, e *reflzma.Encoder, n int, maxContent int) {
	done := 0
	for done < n {
		step := 64
		if n-done < step {
			step = n - done
		}
		room := maxContent - e.SegmentLen()
		if room <= 0 || e.PendingBytes() > 65536-2048 {
			return
		}
		genOps(r, e, step, room)
		done += step
	}
}

// Legal decides with the format's chunk rules whether a kind sequence is a
// legal complete LZMA2 stream; if not it returns the index of the offending
// chunk (len(kinds) if the sequence merely lacks an end chunk).
func Legal(kinds []string) (ok bool, bad int) {
	needDict, needProps := true, true
	for i, k := range kinds {
		switch k {
		case "end":
			if i != len(kinds)-1 {
				return false, i + 1 // data after the end chunk
			}
			return true, -1
		case "UD":
			needDict, needProps = false, true
		case "LRND":
			needDict, needProps = false, false
		case "U":
			if needDict {
				return false, i
			}
		case "LRN":
			if needDict {
				return false, i
			}
			needProps = false
		case "L", "LR":
			if needDict || needProps {
				return false, i
			}
		default:
			return false, i
		}
	}
	return false, len(kinds)
}

// RandomLegalKinds draws a legal kind sequence of n chunks plus the end chunk.
func RandomLegalKinds(r *sim.Rng, n int) []string {
	var ks []string
	needDict, needProps := true, true
	for i := 0; i < n; i++ {
		var opts []string
		switch {
		case needDict:
			opts = []string{"UD", "LRND", "LRND"}
		case needProps:
			opts = []string{"U", "UD", "LRN", "LRN", "LRND"}
		default:
			opts = []string{"U", "UD", "L", "L", "L", "LR", "LRN", "LRND"}
		}
		k := sim.Pick(r, opts)
		switch k {
		case "UD":
			needDict, needProps = false, true
		case "LRND", "LRN":
			needDict, needProps = false, false
		}
		ks = append(ks, k)
	}
	return append(ks, "end")
}

// XZ is a generated .xz stream.
type XZ struct {
	Stream  []byte
	Content []byte
	CheckID byte
	Blocks  int
}

// GenXZ generates a valid single-stream .xz file with arbitrary legal layout.
func GenXZ(r *sim.Rng, big bool) *XZ {
	check := sim.Pick(r, []byte{refxz.CheckNone, refxz.CheckCRC32, refxz.CheckCRC64, refxz.CheckSHA256})
	nb := r.Weighted([]int{1, 6, 3, 2})
	many := false
	switch {
	case r.Chance(1, 150):
		// the record count of the index needs a two-byte varint from 128 blocks on
		nb, many = r.Range(120, 300), true
	case big && r.Chance(1, 10):
		nb, many = 16384+r.Intn(20), true // three bytes
	}
	x := &XZ{CheckID: check, Blocks: nb}
	var blocks []refxz.BlockSpec
	for i := 0; i < nb; i++ {
		db := byte(r.Weighted([]int{5, 2, 1, 1, 1}))
		if r.Chance(1, 8) {
			db = byte(r.Range(0, 16))
		}
		ds, _ := reflzma.DictSizeFromByte(db)
		nch := r.Weighted([]int{1, 5, 3, 2, 1})
		if r.Chance(1, 10) {
			nch = r.Range(5, 12)
		}
		maxOps := r.Range(1, 60)
		maxRaw := r.Range(1, 200)
		if many {
			nch, maxOps, maxRaw = r.Intn(2), r.Range(1, 3), r.Range(1, 8)
		} else if r.Chance(1, 10) && ds <= 1<<16 {
			// uncompressed chunks larger than the declared dictionary
			maxRaw = int(ds) * r.Range(1, 4)
			if maxRaw > 1<<16 {
				maxRaw = 1 << 16
			}
		}
		if !many && r.Chance(1, 12) {
			// content of several windows over the smallest dictionary: ring wrap in
			// the reader, matches at the window edge after the wrap
			db, ds = 0, 4096
			nch = r.Range(6, 14)
			maxOps = r.Range(100, 400)
		}
		kinds := RandomLegalKinds(r, nch)
		o := SeqOptions{MaxOpsPerChunk: maxOps, MaxRaw: maxRaw, DictSize: ds, BigChunk: big && !many && r.Chance(1, 4)}
		if !many && r.Chance(1, 60) {
			// a block whose LZMA chunks are larger than their data: full raw chunks
			// as history, then two-byte matches at far, ever-changing distances
			db = 18
			ds, _ = reflzma.DictSizeFromByte(db) // 1 MiB
			kinds = []string{"UD"}
			o = SeqOptions{MaxOpsPerChunk: maxOps, DictSize: ds, ForceSize: map[int]int{0: 1 << 16}, Costly: map[int]bool{}}
			for k := r.Range(1, 6); k > 0; k-- {
				o.ForceSize[len(kinds)] = 1 << 16
				kinds = append(kinds, "U")
			}
			o.Costly[len(kinds)] = true
			kinds = append(kinds, "LRN")
			if r.Bool() {
				o.Costly[len(kinds)] = true
				kinds = append(kinds, sim.Pick(r, []string{"L", "LR", "LRN"}))
			}
			kinds = append(kinds, "end")
		}
		cs := Realise(r, kinds, o)
		bs := refxz.BlockSpec{Data: cs.Stream, Content: cs.Content, DictByte: db,
			WithCompSize: r.Chance(1, 3), WithUncomp: r.Chance(1, 3)}
		if r.Chance(1, 6) {
			bs.ExtraHdrPad = r.Range(1, 3)
		}
		if r.Chance(1, 40) {
			// a block header of the largest size the format allows (1024 bytes,
			// size byte 0xFF) or just below it
			n := len(refxz.BuildBlockHeader(bs))
			bs.ExtraHdrPad += (1024-n)/4 - r.Intn(2)*r.Intn(3)
		}
		blocks = append(blocks, bs)
		x.Content = append(x.Content, cs.Content...)
	}
	x.Stream = refxz.BuildStream(check, blocks)
	return x
}

// Far is a generated stream of more than 8 MiB of content whose last
// operations reach back further than 8 MiB (the library's default reader
// window): only a decoder that honours the declared dictionary size, rather
// than its own default, decodes it.
type Far struct {
	Stream  []byte
	Content []byte
	Format  string // xz | lzma | lzma2
	Dict    int64
}

// GenFar generates a far-distance stream in the given format. The bulk of the
// content is produced by long rep matches, so the stream itself stays small.
func GenFar(r *sim.Rng, format string) *Far {
	db := byte(sim.Pick(r, []int{24, 25, 26})) // 12, 16, 24 MiB
	ds, _ := reflzma.DictSizeFromByte(db)
	f := &Far{Format: format, Dict: ds}
	bulk := r.Range(8<<20+4096, 9<<20)
	if format == "lzma" {
		p := RandProps(r, false)
		e := reflzma.NewEncoder(p, ds)
		genOps(r, e, r.Range(20, 200), 4096)
		if len(e.Hist) == 0 {
			e.Lit(byte(r.Intn(256)))
		}
		for len(e.Hist) < bulk {
			if int64(e.Rep()[0])+1 > e.Avail() {
				e.Lit(byte(r.Intn(256)))
				continue
			}
			e.RepMatch(0, 273)
		}
		farOps(r, e, r.Range(3, 40))
		mode := sim.Pick(r, []string{"marker", "size", "both"})
		if mode != "size" {
			e.EOS()
		}
		body := e.Finish()
		h := make([]byte, 13)
		h[0] = p.Byte()
		h[1], h[2], h[3], h[4] = byte(ds), byte(ds>>8), byte(ds>>16), byte(ds>>24)
		size := uint64(len(e.Hist))
		if mode == "marker" {
			size = 1<<64 - 1
		}
		for i := 0; i < 8; i++ {
			h[5+i] = byte(size >> (8 * uint(i)))
		}
		f.Stream, f.Content = append(h, body...), append([]byte(nil), e.Hist...)
		return f
	}
	// LZMA2: chunks hold at most 2 MiB, so the bulk is spread over forced-size
	// chunks without a dictionary reset; the last chunk carries the far matches.
	kinds := []string{"LRND"}
	force := map[int]int{0: 2 << 20}
	for i, left := 1, bulk-2<<20; left > 0; i++ {
		n := 2 << 20
		if left < n {
			n = left
		}
		kinds = append(kinds, sim.Pick(r, []string{"L", "L", "LR", "LRN"}))
		force[i] = n
		left -= n
	}
	kinds = append(kinds, "L", "end")
	cs := Realise(r, kinds, SeqOptions{MaxOpsPerChunk: 40, DictSize: ds, ForceSize: force, FarChunk: len(kinds) - 2})
	f.Content = cs.Content
	if format == "lzma2" {
		f.Stream = cs.Stream
		return f
	}
	check := sim.Pick(r, []byte{refxz.CheckNone, refxz.CheckCRC32, refxz.CheckCRC64, refxz.CheckSHA256})
	f.Stream = refxz.BuildStream(check, []refxz.BlockSpec{{Data: cs.Stream, Content: cs.Content, DictByte: db}})
	return f
}

// costlyOps encodes up to n two-byte matches at distances spread over the upper
// part of the available history (each with a distance slot of its own, so the
// adaptive model learns little), with a literal now and then.
func costlyOps(r *sim.Rng, e *reflzma.Encoder, n int) {
	for i := 0; i < n && e.PendingBytes() < 65536-64 && e.SegmentLen() < 2<<20-4; i++ {
		av := e.Avail()
		if av < 2 || r.Chance(1, 30) {
			e.Lit(byte(r.Intn(256)))
			continue
		}
		// the top of the history, or a few octaves below it
		hi := av
		for k := 0; k < 8 && hi >= 4 && r.Bool(); k++ {
			hi /= 2
		}
		d := hi - int64(r.Intn(int(hi/2+1)))
		e.Match(d, 2)
	}
}

// farOps encodes n matches whose distances lie beyond 8 MiB, mixed with
// literals and reps of those distances.
func farOps(r *sim.Rng, e *reflzma.Encoder, n int) {
	for i := 0; i < n; i++ {
		av := e.Avail()
		if av <= 8<<20+1 {
			return
		}
		switch r.Intn(4) {
		case 0:
			e.Lit(byte(r.Intn(256)))
		case 1:
			if int64(e.Rep()[0])+1 <= av {
				e.RepMatch(0, r.Range(2, 40))
				continue
			}
			fallthrough
		default:
			d := int64(8<<20) + 1 + int64(r.Intn(int(av-8<<20)))
			if r.Chance(1, 4) {
				d = av
			}
			e.Match(d, r.Range(2, 273))
		}
	}
}
