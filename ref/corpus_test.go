package ref

import (
	"bytes"
	"crypto/sha256"
	"encoding/hex"
	"encoding/json"
	"os"
	"path/filepath"
	"testing"

	"verif/ref/reflzma"
	"verif/ref/refxz"
)

func TestCorpusDecodesUnderReference(t *testing.T) {
	b, err := os.ReadFile("../corpus/index.json")
	if err != nil {
		t.Skip("no corpus")
	}
	var list []struct {
		File, Format, ContentFile string `json:"-"`
		F                         string `json:"file"`
		Fmt                       string `json:"format"`
		C                         string `json:"content_file"`
		Sha                       string `json:"content_sha256"`
	}
	if err := json.Unmarshal(b, &list); err != nil {
		t.Fatal(err)
	}
	for _, e := range list {
		st, _ := os.ReadFile(filepath.Join("../corpus", e.F))
		ct, _ := os.ReadFile(filepath.Join("../corpus", e.C))
		s := sha256.Sum256(ct)
		if hex.EncodeToString(s[:]) != e.Sha {
			t.Fatalf("%s: content digest mismatch", e.F)
		}
		var got []byte
		var err error
		if e.Fmt == "xz" {
			var f *refxz.File
			f, err = refxz.Parse(st, false)
			if f != nil {
				got = f.Content
			}
		} else {
			var r *reflzma.AloneResult
			r, err = reflzma.DecodeAlone(st, false)
			if r != nil {
				got = r.Out
			}
		}
		if err != nil || !bytes.Equal(got, ct) {
			t.Errorf("%s (%s): err=%v got %d want %d", e.F, e.Fmt, err, len(got), len(ct))
		}
	}
	t.Logf("%d corpus files agree with the reference decoders", len(list))
}
