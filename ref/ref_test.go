package ref

import (
	"bytes"
	"testing"

	"verif/ref/liblzma"
	"verif/ref/refenc"
	"verif/ref/reflzma"
	"verif/ref/refxz"
	"verif/sim"
)

func TestAloneAgreement(t *testing.T) {
	for s := uint64(0); s < 3000; s++ {
		r := sim.NewRng(s)
		a := refenc.GenAlone(r, 400)
		res, err := reflzma.DecodeAlone(a.Stream, false)
		if err != nil || !bytes.Equal(res.Out, a.Content) {
			t.Fatalf("seed %d mode %s: reflzma err=%v len=%d want %d", s, a.Mode, err, len(res.Out), len(a.Content))
		}
		if liblzma.Available && a.Props.LC+a.Props.LP <= 4 {
			out, _, err := liblzma.DecodeAlone(a.Stream)
			if err != nil || !bytes.Equal(out, a.Content) {
				t.Fatalf("seed %d mode %s props %+v dict %d: liblzma err=%v len=%d want %d", s, a.Mode, a.Props, a.Dict, err, len(out), len(a.Content))
			}
		}
	}
}

func TestLZMA2Agreement(t *testing.T) {
	for s := uint64(0); s < 3000; s++ {
		r := sim.NewRng(s)
		kinds := refenc.RandomLegalKinds(r, r.Range(0, 8))
		cs := refenc.Realise(r, kinds, refenc.SeqOptions{MaxOpsPerChunk: 80, MaxRaw: 100, DictSize: 4096, BigChunk: s%50 == 0})
		res, err := reflzma.DecodeLZMA2(cs.Stream, cs.DictSize, true, false)
		if err != nil || !bytes.Equal(res.Out, cs.Content) {
			t.Fatalf("seed %d kinds %v: reflzma err=%v len=%d want %d", s, kinds, err, len(res.Out), len(cs.Content))
		}
		if liblzma.Available {
			out, _, err := liblzma.DecodeRawLZMA2(cs.Stream, uint32(cs.DictSize))
			if err != nil || !bytes.Equal(out, cs.Content) {
				t.Fatalf("seed %d kinds %v: liblzma err=%v len=%d want %d", s, kinds, err, len(out), len(cs.Content))
			}
		}
	}
}

func TestXZAgreement(t *testing.T) {
	for s := uint64(0); s < 1500; s++ {
		r := sim.NewRng(s)
		x := refenc.GenXZ(r, s%40 == 0)
		f, err := refxz.Parse(x.Stream, false)
		if err != nil || !bytes.Equal(f.Content, x.Content) {
			t.Fatalf("seed %d: refxz err=%v", s, err)
		}
		if liblzma.Available {
			out, err := liblzma.DecodeXZ(x.Stream)
			if err != nil || !bytes.Equal(out, x.Content) {
				t.Fatalf("seed %d: liblzma err=%v len=%d want %d", s, err, len(out), len(x.Content))
			}
		}
	}
}

func TestLiblzmaEncodedParses(t *testing.T) {
	if !liblzma.Available {
		t.Skip("no liblzma")
	}
	for s := uint64(0); s < 300; s++ {
		r := sim.NewRng(s)
		data := sim.GenPayload(r, 200000).Bytes()
		o := liblzma.EncOptions{Preset: uint32(r.Intn(10)), Extreme: r.Chance(1, 4), LC: -1, Check: []int{0, 1, 4, 10}[r.Intn(4)]}
		if r.Bool() {
			o.LC, o.LP, o.PB = r.Intn(5), 0, r.Intn(5)
			o.LP = r.Intn(5 - o.LC)
		}
		if r.Bool() {
			o.Dict = uint32(r.Range(4096, 1<<20))
		}
		if r.Chance(1, 3) {
			o.BlockSize = uint64(r.Range(4096, 100000))
		}
		enc, err := liblzma.EncodeXZ(data, o)
		if err != nil {
			t.Fatalf("seed %d: encode %+v: %v", s, o, err)
		}
		f, err := refxz.Parse(enc, false)
		if err != nil || !bytes.Equal(f.Content, data) {
			t.Fatalf("seed %d opts %+v: refxz err=%v", s, o, err)
		}
		al, err := liblzma.EncodeAlone(data, o)
		if err != nil {
			t.Fatalf("seed %d: alone encode: %v", s, err)
		}
		res, err := reflzma.DecodeAlone(al, false)
		if err != nil || !bytes.Equal(res.Out, data) {
			t.Fatalf("seed %d opts %+v: reflzma alone err=%v", s, o, err)
		}
	}
}
