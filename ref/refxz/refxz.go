// Package refxz is an independent parser, validator and builder for the .xz
// container, written from xz-file-format-1.0.4. It shares no code with the
// library under test; it relies only on hash/crc32, hash/crc64 and
// crypto/sha256 of the standard library and on verif/ref/reflzma.
package refxz

import (
	"bytes"
	"crypto/sha256"
	"encoding/binary"
	"errors"
	"fmt"
	"hash/crc32"
	"hash/crc64"

	"verif/ref/reflzma"
)

// Check ids of the format.
const (
	CheckNone   = 0x00
	CheckCRC32  = 0x01
	CheckCRC64  = 0x04
	CheckSHA256 = 0x0A
)

var (
	headerMagic = []byte{0xFD, '7', 'z', 'X', 'Z', 0x00}
	footerMagic = []byte{'Y', 'Z'}
	ecma        = crc64.MakeTable(crc64.ECMA)
)

// ErrInvalid is wrapped by every validation failure.
var ErrInvalid = errors.New("refxz: invalid .xz file")

// ErrTruncated is returned when the input ends inside a structure.
var ErrTruncated = errors.New("refxz: truncated .xz file")

func invalid(format string, a ...any) error {
	return fmt.Errorf("%w: %s", ErrInvalid, fmt.Sprintf(format, a...))
}

// CheckSize returns the size of the check field for a check id, or -1 if the
// id is not one of the four supported ones.
func CheckSize(id byte) int {
	switch id {
	case CheckNone:
		return 0
	case CheckCRC32:
		return 4
	case CheckCRC64:
		return 8
	case CheckSHA256:
		return 32
	}
	return -1
}

// CheckValue computes the check field for data.
func CheckValue(id byte, data []byte) []byte {
	switch id {
	case CheckCRC32:
		b := make([]byte, 4)
		binary.LittleEndian.PutUint32(b, crc32.ChecksumIEEE(data))
		return b
	case CheckCRC64:
		b := make([]byte, 8)
		binary.LittleEndian.PutUint64(b, crc64.Checksum(data, ecma))
		return b
	case CheckSHA256:
		s := sha256.Sum256(data)
		return s[:]
	}
	return nil
}

// Span names a byte range of the file.
type Span struct {
	Kind       string // stream-header, block-header, block-data, block-padding, check, index, footer, stream-padding
	Start, End int
}

// Block is a parsed block.
type Block struct {
	HeaderOffset  int
	HeaderSize    int
	Flags         byte
	HasCompSize   bool
	HasUncompSize bool
	DeclComp      int64
	DeclUncomp    int64
	DictByte      byte
	DictSize      int64
	HeaderPadding int
	DataOffset    int
	CompSize      int // measured
	UncompSize    int // measured
	PaddingLen    int
	Check         []byte
	Chunks        []reflzma.Chunk
	Content       []byte
	Trace         reflzma.Trace
	UnpaddedSize  int64
	TotalSize     int
	ContentOffset int
}

// Stream is a parsed stream.
type Stream struct {
	Offset       int
	CheckID      byte
	Blocks       []Block
	IndexOffset  int
	IndexSize    int
	FooterOffset int
	End          int // offset just after the footer
	PaddingAfter int // stream padding bytes following this stream
}

// File is a parsed .xz file (one or more streams).
type File struct {
	Streams []Stream
	Content []byte
	Spans   []Span
}

// SpanAt returns the kind of the structure that contains offset off.
func (f *File) SpanAt(off int) string {
	for _, s := range f.Spans {
		if off >= s.Start && off < s.End {
			return s.Kind
		}
	}
	return "outside"
}

func readVarint(b []byte) (v uint64, n int, err error) {
	for i := 0; i < 9; i++ {
		if i >= len(b) {
			return 0, 0, ErrTruncated
		}
		c := b[i]
		v |= uint64(c&0x7F) << (7 * uint(i))
		if c&0x80 == 0 {
			if c == 0 && i > 0 {
				return 0, 0, invalid("non-minimal variable-length integer")
			}
			return v, i + 1, nil
		}
	}
	return 0, 0, invalid("variable-length integer longer than 9 bytes")
}

// PutVarint appends the encoding of v.
func PutVarint(b []byte, v uint64) []byte {
	for v >= 0x80 {
		b = append(b, byte(v)|0x80)
		v >>= 7
	}
	return append(b, byte(v))
}

// PutVarintLong appends an encoding of v that is extra bytes longer than the
// shortest one (continuation bits and zero groups behind the value). The xz
// format forbids such encodings; the structural mutator uses them to lengthen a
// structure without changing a value.
func PutVarintLong(b []byte, v uint64, extra int) []byte {
	if extra <= 0 {
		return PutVarint(b, v)
	}
	for v >= 0x80 {
		b = append(b, byte(v)|0x80)
		v >>= 7
	}
	b = append(b, byte(v)|0x80)
	for i := 1; i < extra; i++ {
		b = append(b, 0x80)
	}
	return append(b, 0)
}

// Parse parses and fully validates a .xz file. keepOps makes the LZMA traces
// keep the operation list.
func Parse(in []byte, keepOps bool) (*File, error) {
	f := &File{}
	pos := 0
	if len(in) == 0 {
		return f, ErrTruncated
	}
	for {
		st, err := parseStream(in, pos, f, keepOps)
		if err != nil {
			return f, err
		}
		pos = st.End
		// stream padding
		pad := 0
		for pos+pad < len(in) && in[pos+pad] == 0 {
			pad++
		}
		if pos+pad == len(in) {
			if pad%4 != 0 {
				f.Streams = append(f.Streams, *st)
				return f, invalid("stream padding of %d bytes is not a multiple of four", pad)
			}
			st.PaddingAfter = pad
			if pad > 0 {
				f.Spans = append(f.Spans, Span{"stream-padding", pos, pos + pad})
			}
			f.Streams = append(f.Streams, *st)
			return f, nil
		}
		if pad%4 != 0 {
			f.Streams = append(f.Streams, *st)
			return f, invalid("stream padding of %d bytes is not a multiple of four", pad)
		}
		st.PaddingAfter = pad
		if pad > 0 {
			f.Spans = append(f.Spans, Span{"stream-padding", pos, pos + pad})
		}
		f.Streams = append(f.Streams, *st)
		pos += pad
	}
}

func parseStream(in []byte, pos int, f *File, keepOps bool) (*Stream, error) {
	st := &Stream{Offset: pos}
	if pos+12 > len(in) {
		return nil, ErrTruncated
	}
	h := in[pos : pos+12]
	if !bytes.Equal(h[:6], headerMagic) {
		return nil, invalid("bad header magic at %d", pos)
	}
	if crc32.ChecksumIEEE(h[6:8]) != binary.LittleEndian.Uint32(h[8:12]) {
		return nil, invalid("stream header CRC32")
	}
	if h[6] != 0 || h[7]&0xF0 != 0 {
		return nil, invalid("reserved stream flag bits set")
	}
	st.CheckID = h[7]
	csize := CheckSize(st.CheckID)
	if csize < 0 {
		return nil, invalid("unsupported check id %#x", st.CheckID)
	}
	f.Spans = append(f.Spans, Span{"stream-header", pos, pos + 12})
	pos += 12
	type rec struct{ unpadded, uncomp uint64 }
	var recs []rec
	for {
		if pos >= len(in) {
			return nil, ErrTruncated
		}
		if in[pos] == 0 {
			break // index indicator
		}
		b, err := parseBlock(in, pos, st.CheckID, keepOps)
		if err != nil {
			return nil, err
		}
		b.ContentOffset = len(f.Content)
		f.Content = append(f.Content, b.Content...)
		f.Spans = append(f.Spans,
			Span{"block-header", b.HeaderOffset, b.DataOffset},
			Span{"block-data", b.DataOffset, b.DataOffset + b.CompSize},
			Span{"block-padding", b.DataOffset + b.CompSize, b.DataOffset + b.CompSize + b.PaddingLen},
			Span{"check", b.DataOffset + b.CompSize + b.PaddingLen, b.HeaderOffset + b.TotalSize})
		recs = append(recs, rec{uint64(b.UnpaddedSize), uint64(b.UncompSize)})
		st.Blocks = append(st.Blocks, *b)
		pos = b.HeaderOffset + b.TotalSize
	}
	// index
	st.IndexOffset = pos
	p := pos + 1
	cnt, n, err := readVarint(in[p:])
	if err != nil {
		return nil, err
	}
	p += n
	if cnt != uint64(len(recs)) {
		return nil, invalid("index has %d records, stream has %d blocks", cnt, len(recs))
	}
	for i := range recs {
		u, n, err := readVarint(in[p:])
		if err != nil {
			return nil, err
		}
		p += n
		v, n, err := readVarint(in[p:])
		if err != nil {
			return nil, err
		}
		p += n
		if u != recs[i].unpadded || v != recs[i].uncomp {
			return nil, invalid("index record %d is (%d,%d), measured (%d,%d)", i, u, v, recs[i].unpadded, recs[i].uncomp)
		}
	}
	for (p-pos)%4 != 0 {
		if p >= len(in) {
			return nil, ErrTruncated
		}
		if in[p] != 0 {
			return nil, invalid("non-zero index padding")
		}
		p++
	}
	if p+4 > len(in) {
		return nil, ErrTruncated
	}
	if crc32.ChecksumIEEE(in[pos:p]) != binary.LittleEndian.Uint32(in[p:p+4]) {
		return nil, invalid("index CRC32")
	}
	p += 4
	st.IndexSize = p - pos
	f.Spans = append(f.Spans, Span{"index", pos, p})
	// footer
	st.FooterOffset = p
	if p+12 > len(in) {
		return nil, ErrTruncated
	}
	ft := in[p : p+12]
	if !bytes.Equal(ft[10:12], footerMagic) {
		return nil, invalid("footer magic")
	}
	if crc32.ChecksumIEEE(ft[4:10]) != binary.LittleEndian.Uint32(ft[0:4]) {
		return nil, invalid("footer CRC32")
	}
	bs := (int64(binary.LittleEndian.Uint32(ft[4:8])) + 1) * 4
	if bs != int64(st.IndexSize) {
		return nil, invalid("backward size %d, index size %d", bs, st.IndexSize)
	}
	if ft[8] != h[6] || ft[9] != h[7] {
		return nil, invalid("footer stream flags differ from header")
	}
	f.Spans = append(f.Spans, Span{"footer", p, p + 12})
	st.End = p + 12
	return st, nil
}

func parseBlock(in []byte, pos int, checkID byte, keepOps bool) (*Block, error) {
	b := &Block{HeaderOffset: pos}
	hs := (int(in[pos]) + 1) * 4
	b.HeaderSize = hs
	if pos+hs > len(in) {
		return nil, ErrTruncated
	}
	h := in[pos : pos+hs]
	if crc32.ChecksumIEEE(h[:hs-4]) != binary.LittleEndian.Uint32(h[hs-4:]) {
		return nil, invalid("block header CRC32")
	}
	b.Flags = h[1]
	if b.Flags&0x3C != 0 {
		return nil, invalid("reserved block flag bits set")
	}
	if b.Flags&0x03 != 0 {
		return nil, invalid("more than one filter (LZMA2-only files expected)")
	}
	p := 2
	body := h[:hs-4]
	b.DeclComp, b.DeclUncomp = -1, -1
	if b.Flags&0x40 != 0 {
		v, n, err := readVarint(body[p:])
		if err != nil {
			return nil, invalid("compressed size field: %v", err)
		}
		if v == 0 {
			return nil, invalid("compressed size field is zero")
		}
		b.HasCompSize, b.DeclComp = true, int64(v)
		p += n
	}
	if b.Flags&0x80 != 0 {
		v, n, err := readVarint(body[p:])
		if err != nil {
			return nil, invalid("uncompressed size field: %v", err)
		}
		b.HasUncompSize, b.DeclUncomp = true, int64(v)
		p += n
	}
	// filter: id 0x21, size 1, dict byte
	id, n, err := readVarint(body[p:])
	if err != nil {
		return nil, invalid("filter id: %v", err)
	}
	p += n
	if id != 0x21 {
		return nil, invalid("filter id %#x is not LZMA2", id)
	}
	sz, n, err := readVarint(body[p:])
	if err != nil {
		return nil, invalid("filter property size: %v", err)
	}
	p += n
	if sz != 1 {
		return nil, invalid("LZMA2 filter property size %d", sz)
	}
	if p >= len(body) {
		return nil, invalid("block header too short for filter properties")
	}
	b.DictByte = body[p]
	p++
	ds, err := reflzma.DictSizeFromByte(b.DictByte)
	if err != nil {
		return nil, invalid("%v", err)
	}
	b.DictSize = ds
	b.HeaderPadding = len(body) - p
	for _, c := range body[p:] {
		if c != 0 {
			return nil, invalid("non-zero block header padding")
		}
	}
	b.DataOffset = pos + hs
	res, err := reflzma.DecodeLZMA2(in[b.DataOffset:], ds, true, keepOps)
	if err != nil {
		if errors.Is(err, reflzma.ErrTruncated) {
			return nil, ErrTruncated
		}
		return nil, invalid("block data: %v", err)
	}
	b.CompSize = res.Consumed
	b.UncompSize = len(res.Out)
	b.Content = res.Out
	b.Chunks = res.Chunks
	b.Trace = res.Trace
	if b.HasCompSize && b.DeclComp != int64(b.CompSize) {
		return nil, invalid("block header compressed size %d, measured %d", b.DeclComp, b.CompSize)
	}
	if b.HasUncompSize && b.DeclUncomp != int64(b.UncompSize) {
		return nil, invalid("block header uncompressed size %d, measured %d", b.DeclUncomp, b.UncompSize)
	}
	q := b.DataOffset + b.CompSize
	for (q-b.DataOffset)%4 != 0 {
		if q >= len(in) {
			return nil, ErrTruncated
		}
		if in[q] != 0 {
			return nil, invalid("non-zero block padding")
		}
		q++
		b.PaddingLen++
	}
	cs := CheckSize(checkID)
	if q+cs > len(in) {
		return nil, ErrTruncated
	}
	b.Check = in[q : q+cs]
	if want := CheckValue(checkID, b.Content); !bytes.Equal(want, b.Check) {
		return nil, invalid("block check mismatch")
	}
	b.UnpaddedSize = int64(hs + b.CompSize + cs)
	b.TotalSize = hs + b.CompSize + b.PaddingLen + cs
	return b, nil
}

// ---- builder ----

// BlockSpec describes a block to build.
type BlockSpec struct {
	Data         []byte // LZMA2 chunk sequence including the end chunk
	Content      []byte // decoded content (for the check)
	DictByte     byte
	WithCompSize bool
	WithUncomp   bool
	ExtraHdrPad  int // additional zero padding in multiples of 4
	// overrides used by the structural mutator (nil = truthful)
	CompSizeOverride   *uint64
	UncompSizeOverride *uint64
	// FilterRaw, if set, replaces the three bytes of the LZMA2 filter flags
	FilterRaw []byte
}

// BuildBlockHeader builds a block header.
func BuildBlockHeader(b BlockSpec) []byte {
	h := []byte{0, 0}
	if b.WithCompSize {
		h[1] |= 0x40
		v := uint64(len(b.Data))
		if b.CompSizeOverride != nil {
			v = *b.CompSizeOverride
		}
		h = PutVarint(h, v)
	}
	if b.WithUncomp {
		h[1] |= 0x80
		v := uint64(len(b.Content))
		if b.UncompSizeOverride != nil {
			v = *b.UncompSizeOverride
		}
		h = PutVarint(h, v)
	}
	if b.FilterRaw != nil {
		h = append(h, b.FilterRaw...)
	} else {
		h = append(h, 0x21, 0x01, b.DictByte)
	}
	for (len(h)+4)%4 != 0 {
		h = append(h, 0)
	}
	for i := 0; i < b.ExtraHdrPad; i++ {
		h = append(h, 0, 0, 0, 0)
	}
	h[0] = byte((len(h)+4)/4 - 1)
	var c [4]byte
	binary.LittleEndian.PutUint32(c[:], crc32.ChecksumIEEE(h))
	return append(h, c[:]...)
}

// StreamHeader builds the 12-byte stream header.
func StreamHeader(checkID byte) []byte {
	h := append([]byte{}, headerMagic...)
	h = append(h, 0, checkID)
	var c [4]byte
	binary.LittleEndian.PutUint32(c[:], crc32.ChecksumIEEE(h[6:8]))
	return append(h, c[:]...)
}

// Record is an index record.
type Record struct{ Unpadded, Uncompressed uint64 }

// BuildIndex builds the index for the records.
func BuildIndex(recs []Record) []byte {
	return BuildIndexCount(recs, uint64(len(recs)))
}

// BuildIndexCount builds an index with an explicit record count field.
func BuildIndexCount(recs []Record, count uint64) []byte {
	return BuildIndexLong(recs, count, nil)
}

// BuildIndexLong is BuildIndexCount with over-long encodings: extra(i) gives the
// number of surplus bytes of the i-th integer of the index (0 = record count,
// 1, 2 = first record, ...).
func BuildIndexLong(recs []Record, count uint64, extra func(i int) int) []byte {
	if extra == nil {
		extra = func(int) int { return 0 }
	}
	ix := []byte{0}
	ix = PutVarintLong(ix, count, extra(0))
	for i, r := range recs {
		ix = PutVarintLong(ix, r.Unpadded, extra(1+2*i))
		ix = PutVarintLong(ix, r.Uncompressed, extra(2+2*i))
	}
	for len(ix)%4 != 0 {
		ix = append(ix, 0)
	}
	var c [4]byte
	binary.LittleEndian.PutUint32(c[:], crc32.ChecksumIEEE(ix))
	return append(ix, c[:]...)
}

// Footer builds the stream footer.
func Footer(checkID byte, indexSize int) []byte {
	return FooterRaw(0, checkID, uint32(indexSize/4-1))
}

// FooterRaw builds a footer from raw field values.
func FooterRaw(flag0, flag1 byte, backward uint32) []byte {
	ft := make([]byte, 12)
	binary.LittleEndian.PutUint32(ft[4:8], backward)
	ft[8], ft[9] = flag0, flag1
	ft[10], ft[11] = 'Y', 'Z'
	binary.LittleEndian.PutUint32(ft[0:4], crc32.ChecksumIEEE(ft[4:10]))
	return ft
}

// BuildStream assembles a complete, valid stream from blocks.
func BuildStream(checkID byte, blocks []BlockSpec) []byte {
	out := StreamHeader(checkID)
	var recs []Record
	for _, b := range blocks {
		h := BuildBlockHeader(b)
		out = append(out, h...)
		out = append(out, b.Data...)
		for i := len(b.Data); i%4 != 0; i++ {
			out = append(out, 0)
		}
		cv := CheckValue(checkID, b.Content)
		out = append(out, cv...)
		recs = append(recs, Record{uint64(len(h) + len(b.Data) + len(cv)), uint64(len(b.Content))})
	}
	ix := BuildIndex(recs)
	out = append(out, ix...)
	return append(out, Footer(checkID, len(ix))...)
}

// Reseal recomputes the CRC32 of the structure starting at span s in img
// (stream-header, block-header, index, footer). It is used by the structural
// mutator so that only the targeted cross-check can object to an edit.
func Reseal(img []byte, s Span) {
	switch s.Kind {
	case "stream-header":
		binary.LittleEndian.PutUint32(img[s.Start+8:], crc32.ChecksumIEEE(img[s.Start+6:s.Start+8]))
	case "block-header", "index":
		binary.LittleEndian.PutUint32(img[s.End-4:], crc32.ChecksumIEEE(img[s.Start:s.End-4]))
	case "footer":
		binary.LittleEndian.PutUint32(img[s.Start:], crc32.ChecksumIEEE(img[s.Start+4:s.Start+10]))
	}
}
