//go:build liblzma

// Package liblzma binds liblzma (xz-utils' library) through cgo. It is the
// second, fully foreign judge and peer. Built only with -tags liblzma.
package liblzma

/*
#cgo LDFLAGS: -llzma
#include <lzma.h>
#include <stdlib.h>
#include <string.h>

// run drives an initialised stream over the whole input with LZMA_FINISH and
// collects the output in a malloc'ed buffer.
static lzma_ret run(lzma_stream *s, const uint8_t *in, size_t inlen,
		uint8_t **out, size_t *outlen, size_t maxout, size_t *consumed) {
	size_t cap = 1 << 16;
	uint8_t *buf = malloc(cap);
	size_t len = 0;
	lzma_ret r = LZMA_OK;
	s->next_in = in;
	s->avail_in = inlen;
	int stuck = 0;
	for (;;) {
		if (len == cap) {
			if (cap >= maxout) { r = LZMA_MEM_ERROR; break; }
			cap *= 2;
			buf = realloc(buf, cap);
		}
		s->next_out = buf + len;
		s->avail_out = cap - len;
		size_t before_in = s->avail_in, before_out = s->avail_out;
		r = lzma_code(s, LZMA_FINISH);
		len = cap - s->avail_out;
		if (r != LZMA_OK)
			break;
		if (before_in == s->avail_in && before_out == s->avail_out) {
			if (++stuck > 2) { r = LZMA_BUF_ERROR; break; }
		} else stuck = 0;
	}
	*consumed = inlen - s->avail_in;
	*out = buf;
	*outlen = len;
	return r;
}

static lzma_ret dec_xz(const uint8_t *in, size_t inlen, uint8_t **out, size_t *outlen, size_t maxout, size_t *consumed, int concatenated) {
	lzma_stream s = LZMA_STREAM_INIT;
	lzma_ret r = lzma_stream_decoder(&s, UINT64_MAX, concatenated ? LZMA_CONCATENATED : 0);
	if (r != LZMA_OK) return r;
	r = run(&s, in, inlen, out, outlen, maxout, consumed);
	lzma_end(&s);
	return r;
}

static lzma_ret dec_alone(const uint8_t *in, size_t inlen, uint8_t **out, size_t *outlen, size_t maxout, size_t *consumed) {
	lzma_stream s = LZMA_STREAM_INIT;
	lzma_ret r = lzma_alone_decoder(&s, UINT64_MAX);
	if (r != LZMA_OK) return r;
	r = run(&s, in, inlen, out, outlen, maxout, consumed);
	lzma_end(&s);
	return r;
}

static lzma_ret dec_raw2(const uint8_t *in, size_t inlen, uint32_t dict, uint8_t **out, size_t *outlen, size_t maxout, size_t *consumed) {
	lzma_stream s = LZMA_STREAM_INIT;
	lzma_options_lzma opt;
	memset(&opt, 0, sizeof(opt));
	opt.dict_size = dict;
	lzma_filter f[2] = {{LZMA_FILTER_LZMA2, &opt}, {LZMA_VLI_UNKNOWN, NULL}};
	lzma_ret r = lzma_raw_decoder(&s, f);
	if (r != LZMA_OK) return r;
	r = run(&s, in, inlen, out, outlen, maxout, consumed);
	lzma_end(&s);
	return r;
}

static void fill_opt(lzma_options_lzma *opt, uint32_t preset, uint32_t dict, int lc, int lp, int pb, int mf, int mode, int nice, int depth) {
	lzma_lzma_preset(opt, preset);
	if (dict) opt->dict_size = dict;
	if (lc >= 0) { opt->lc = lc; opt->lp = lp; opt->pb = pb; }
	if (mf > 0) opt->mf = (lzma_match_finder)mf;
	if (mode > 0) opt->mode = (lzma_mode)mode;
	if (nice > 0) opt->nice_len = nice;
	if (depth > 0) opt->depth = depth;
}

static lzma_ret enc_xz(const uint8_t *in, size_t inlen, uint32_t preset, uint32_t dict, int lc, int lp, int pb, int mf, int mode, int nice, int check, uint64_t block_size,
		uint8_t **out, size_t *outlen, size_t maxout) {
	lzma_stream s = LZMA_STREAM_INIT;
	lzma_options_lzma opt;
	fill_opt(&opt, preset, dict, lc, lp, pb, mf, mode, nice, 0);
	lzma_filter f[2] = {{LZMA_FILTER_LZMA2, &opt}, {LZMA_VLI_UNKNOWN, NULL}};
	lzma_ret r;
	if (block_size > 0) {
		lzma_mt mt;
		memset(&mt, 0, sizeof(mt));
		mt.threads = 1;
		mt.block_size = block_size;
		mt.filters = f;
		mt.check = (lzma_check)check;
		r = lzma_stream_encoder_mt(&s, &mt);
	} else {
		r = lzma_stream_encoder(&s, f, (lzma_check)check);
	}
	if (r != LZMA_OK) return r;
	size_t consumed;
	r = run(&s, in, inlen, out, outlen, maxout, &consumed);
	lzma_end(&s);
	return r;
}

static lzma_ret enc_alone(const uint8_t *in, size_t inlen, uint32_t preset, uint32_t dict, int lc, int lp, int pb, int mf, int mode, int nice,
		uint8_t **out, size_t *outlen, size_t maxout) {
	lzma_stream s = LZMA_STREAM_INIT;
	lzma_options_lzma opt;
	fill_opt(&opt, preset, dict, lc, lp, pb, mf, mode, nice, 0);
	lzma_ret r = lzma_alone_encoder(&s, &opt);
	if (r != LZMA_OK) return r;
	size_t consumed;
	r = run(&s, in, inlen, out, outlen, maxout, &consumed);
	lzma_end(&s);
	return r;
}
*/
import "C"

import (
	"fmt"
	"unsafe"
)

// Available reports whether liblzma is linked in.
const Available = true

// Version returns liblzma's version string.
func Version() string { return C.GoString(C.lzma_version_string()) }

func retErr(r C.lzma_ret) error {
	names := map[C.lzma_ret]string{
		C.LZMA_OK: "LZMA_OK (input ended before the stream did)", C.LZMA_NO_CHECK: "LZMA_NO_CHECK", C.LZMA_UNSUPPORTED_CHECK: "LZMA_UNSUPPORTED_CHECK",
		C.LZMA_MEM_ERROR: "LZMA_MEM_ERROR", C.LZMA_MEMLIMIT_ERROR: "LZMA_MEMLIMIT_ERROR", C.LZMA_FORMAT_ERROR: "LZMA_FORMAT_ERROR",
		C.LZMA_OPTIONS_ERROR: "LZMA_OPTIONS_ERROR", C.LZMA_DATA_ERROR: "LZMA_DATA_ERROR", C.LZMA_BUF_ERROR: "LZMA_BUF_ERROR", C.LZMA_PROG_ERROR: "LZMA_PROG_ERROR",
	}
	if n, ok := names[r]; ok {
		return fmt.Errorf("liblzma: %s", n)
	}
	return fmt.Errorf("liblzma: return code %d", int(r))
}

func inPtr(in []byte) *C.uint8_t {
	if len(in) == 0 {
		return (*C.uint8_t)(unsafe.Pointer(&[]byte{0}[0]))
	}
	return (*C.uint8_t)(unsafe.Pointer(&in[0]))
}

const maxOut = 1 << 28

func take(out *C.uint8_t, n C.size_t) []byte {
	b := C.GoBytes(unsafe.Pointer(out), C.int(n))
	C.free(unsafe.Pointer(out))
	return b
}

// DecodeXZ decodes a .xz file (concatenated streams and padding allowed).
func DecodeXZ(in []byte) ([]byte, error) {
	var out *C.uint8_t
	var n, consumed C.size_t
	r := C.dec_xz(inPtr(in), C.size_t(len(in)), &out, &n, maxOut, &consumed, 1)
	b := take(out, n)
	if r != C.LZMA_STREAM_END {
		return b, retErr(r)
	}
	return b, nil
}

// DecodeXZSingle decodes one .xz stream and returns how much input it used.
func DecodeXZSingle(in []byte) ([]byte, int, error) {
	var out *C.uint8_t
	var n, consumed C.size_t
	r := C.dec_xz(inPtr(in), C.size_t(len(in)), &out, &n, maxOut, &consumed, 0)
	b := take(out, n)
	if r != C.LZMA_STREAM_END {
		return b, int(consumed), retErr(r)
	}
	return b, int(consumed), nil
}

// DecodeAlone decodes a classic .lzma stream.
func DecodeAlone(in []byte) ([]byte, int, error) {
	var out *C.uint8_t
	var n, consumed C.size_t
	r := C.dec_alone(inPtr(in), C.size_t(len(in)), &out, &n, maxOut, &consumed)
	b := take(out, n)
	if r != C.LZMA_STREAM_END {
		return b, int(consumed), retErr(r)
	}
	return b, int(consumed), nil
}

// DecodeRawLZMA2 decodes an LZMA2 chunk sequence.
func DecodeRawLZMA2(in []byte, dict uint32) ([]byte, int, error) {
	var out *C.uint8_t
	var n, consumed C.size_t
	r := C.dec_raw2(inPtr(in), C.size_t(len(in)), C.uint32_t(dict), &out, &n, maxOut, &consumed)
	b := take(out, n)
	if r != C.LZMA_STREAM_END {
		return b, int(consumed), retErr(r)
	}
	return b, int(consumed), nil
}

// EncOptions selects encoder parameters; negative LC means preset defaults.
type EncOptions struct {
	Preset     uint32
	Extreme    bool
	Dict       uint32
	LC, LP, PB int
	MF         int // 0 default; 0x03 hc3, 0x04 hc4, 0x12 bt2, 0x13 bt3, 0x14 bt4
	Mode       int // 0 default; 1 fast; 2 normal
	Nice       int
	Check      int // 0 none, 1 crc32, 4 crc64, 10 sha256
	BlockSize  uint64
}

func (o EncOptions) preset() C.uint32_t {
	p := o.Preset
	if o.Extreme {
		p |= 1 << 31
	}
	return C.uint32_t(p)
}

// EncodeXZ encodes data as a .xz stream.
func EncodeXZ(data []byte, o EncOptions) ([]byte, error) {
	var out *C.uint8_t
	var n C.size_t
	r := C.enc_xz(inPtr(data), C.size_t(len(data)), o.preset(), C.uint32_t(o.Dict), C.int(o.LC), C.int(o.LP), C.int(o.PB), C.int(o.MF), C.int(o.Mode), C.int(o.Nice),
		C.int(o.Check), C.uint64_t(o.BlockSize), &out, &n, maxOut)
	b := take(out, n)
	if r != C.LZMA_STREAM_END {
		return nil, retErr(r)
	}
	return b, nil
}

// EncodeAlone encodes data as a classic .lzma stream.
func EncodeAlone(data []byte, o EncOptions) ([]byte, error) {
	var out *C.uint8_t
	var n C.size_t
	r := C.enc_alone(inPtr(data), C.size_t(len(data)), o.preset(), C.uint32_t(o.Dict), C.int(o.LC), C.int(o.LP), C.int(o.PB), C.int(o.MF), C.int(o.Mode), C.int(o.Nice),
		&out, &n, maxOut)
	b := take(out, n)
	if r != C.LZMA_STREAM_END {
		return nil, retErr(r)
	}
	return b, nil
}
