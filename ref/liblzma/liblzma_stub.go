//go:build !liblzma

// Package liblzma: stub used when liblzma cannot be linked.
package liblzma

import "errors"

// Available reports whether liblzma is linked in.
const Available = false

var errAbsent = errors.New("liblzma: not linked")

func Version() string { return "absent" }

type EncOptions struct {
	Preset     uint32
	Extreme    bool
	Dict       uint32
	LC, LP, PB int
	MF         int
	Mode       int
	Nice       int
	Check      int
	BlockSize  uint64
}

func DecodeXZ(in []byte) ([]byte, error)                         { return nil, errAbsent }
func DecodeXZSingle(in []byte) ([]byte, int, error)              { return nil, 0, errAbsent }
func DecodeAlone(in []byte) ([]byte, int, error)                 { return nil, 0, errAbsent }
func DecodeRawLZMA2(in []byte, dict uint32) ([]byte, int, error) { return nil, 0, errAbsent }
func EncodeXZ(data []byte, o EncOptions) ([]byte, error)         { return nil, errAbsent }
func EncodeAlone(data []byte, o EncOptions) ([]byte, error)      { return nil, errAbsent }
