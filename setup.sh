#!/bin/bash
# Builds the harness offline from files on disk (run once after a fresh restore).
cd "$(dirname "$0")" || exit 2
export GOFLAGS=-mod=mod GOPROXY=off GOSUMDB=off GOTOOLCHAIN=local
mkdir -p bin evidence replays
if go build -tags liblzma -o bin/verif ./cmd/verif 2>bin/build.log; then
	echo "setup: built with liblzma"
elif go build -o bin/verif ./cmd/verif 2>>bin/build.log; then
	echo "setup: built without liblzma (cgo link failed; pure-Go oracles only)"
else
	cat bin/build.log; echo "setup: build failed"; exit 2
fi
bin/verif list
